module drivers

go 1.25
