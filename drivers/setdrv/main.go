// setdrv: runtime monitor for package set (property C16). Self-contained: compiled at check time in a scratch
// module whose go.mod replaces github.com/pointlander/peg by the repository working tree under test.
// Oracle: a bit-vector model. Every observable of the real set (Has for every point of the universe and a
// margin beyond it, Len, String, Copy, Union, Intersects, Complement, Equal, operand preservation, panics)
// is compared with the model after every operation.
package main

import (
	"encoding/json"
	"fmt"
	"math/rand"
	"os"
	"strconv"
	"strings"
	"sync/atomic"
	"syscall"
	"time"

	"github.com/pointlander/peg/set"
)

// ---------- hang watchdog ----------
// A corrupted interval list can make the real code loop forever. The main goroutine publishes the case it is
// working on; a watchdog goroutine measures the CPU time of the process (not wall time, so machine load cannot
// trigger it) and reports a hang when one case has burnt more than hangCPU seconds.
var progress atomic.Int64
var current atomic.Value // map[string]any

// both must hold for one case: >= hangWall seconds of wall time without progress AND >= hangCPU CPU-seconds burnt
// meanwhile. CPU time alone is not enough on a loaded machine: the process's CPU clock also counts the garbage
// collector's worker threads (a false "hang" was seen once in a thorough run next to 30 other jobs); a real infinite
// loop satisfies both, just a little later.
const hangCPU = 60.0
const hangWall = 30.0

func cpuSeconds() float64 {
	var ru syscall.Rusage
	syscall.Getrusage(syscall.RUSAGE_SELF, &ru)
	return float64(ru.Utime.Sec) + float64(ru.Utime.Usec)/1e6 + float64(ru.Stime.Sec) + float64(ru.Stime.Usec)/1e6
}

func begin(class string, w map[string]any) {
	current.Store(map[string]any{"class": class, "witness": w})
	progress.Add(1)
}

func watchdog() {
	last, lastCPU, lastWall := progress.Load(), cpuSeconds(), time.Now()
	for {
		time.Sleep(200 * time.Millisecond)
		p := progress.Load()
		if p != last {
			last, lastCPU, lastWall = p, cpuSeconds(), time.Now()
			continue
		}
		if cpuSeconds()-lastCPU > hangCPU && time.Since(lastWall).Seconds() > hangWall {
			c, _ := current.Load().(map[string]any)
			w, _ := c["witness"].(map[string]any)
			cl, _ := c["class"].(string)
			wj, _ := json.Marshal(w)
			res.Violations = append(res.Violations, violation{Key: cl + "-hang:" + string(wj),
				Summary: cl + fmt.Sprintf("-hang: one case made no progress for %.0f s while burning more than %.0f CPU-seconds (non-termination); remaining cases not explored", hangWall, hangCPU), Witness: w})
			res.Counters["hang"] = 1
			res.Nontrivial = len(nontr)
			json.NewEncoder(os.Stdout).Encode(res)
			os.Exit(0)
		}
	}
}

// ---------- model ----------
type model struct {
	lo, hi int // universe [lo,hi]
	bits   []bool
}

func newModel(lo, hi int) *model { return &model{lo, hi, make([]bool, hi-lo+1)} }
func (m *model) addRange(b, e int) {
	for x := b; x <= e; x++ {
		if x >= m.lo && x <= m.hi {
			m.bits[x-m.lo] = true
		}
	}
}
func (m *model) has(x int) bool { return x >= m.lo && x <= m.hi && m.bits[x-m.lo] }
func (m *model) len() int {
	n := 0
	for _, b := range m.bits {
		if b {
			n++
		}
	}
	return n
}
func (m *model) clone() *model { c := newModel(m.lo, m.hi); copy(c.bits, m.bits); return c }
func (m *model) str() string {
	var sb strings.Builder
	sb.WriteString("[")
	sp := ""
	for i, b := range m.bits {
		if b {
			sb.WriteString(sp + strconv.Itoa(i+m.lo))
			sp = " "
		}
	}
	sb.WriteString("]")
	return sb.String()
}

// ---------- bookkeeping ----------
type violation struct {
	Key     string `json:"key"`
	Summary string `json:"summary"`
	Witness any    `json:"witness"`
}

type out struct {
	Evals      int            `json:"evals"`
	Nontrivial int            `json:"nontrivial"`
	Counters   map[string]int `json:"counters"`
	Samples    []any          `json:"samples"`
	Violations []violation    `json:"violations"`
	Exhaustive bool           `json:"exhaustive"`
}

var res = out{Counters: map[string]int{}}
var nontr = map[string]bool{}
var seenViol = map[string]bool{}

type ins struct{ B, E int }

func (i ins) String() string { return fmt.Sprintf("AddRange(%d,%d)", i.B, i.E) }

func seqStr(s []ins) string {
	p := make([]string, len(s))
	for i, x := range s {
		p[i] = x.String()
	}
	return strings.Join(p, ";")
}

func violate(class string, what string, witness map[string]any) {
	// key: the operation class + the exact witness (so a different failing input is a different violation)
	w, _ := json.Marshal(witness)
	key := class + ":" + string(w)
	if seenViol[class] {
		res.Counters["violations_"+class]++
		return
	}
	seenViol[class] = true
	res.Counters["violations_"+class]++
	res.Violations = append(res.Violations, violation{Key: key, Summary: class + ": " + what, Witness: witness})
}

// safe runs f and reports a panic as a violation.
func safe(class string, witness map[string]any, f func()) (ok bool) {
	begin(class, witness)
	defer func() {
		if r := recover(); r != nil {
			violate(class+"-panic", fmt.Sprint("panic: ", r), witness)
			ok = false
		}
	}()
	f()
	return true
}

func build(seq []ins) *set.Set {
	s := set.NewSet()
	for _, i := range seq {
		if i.B == i.E && (i.B+i.E)%2 == 0 {
			s.Add(rune(i.B))
		} else {
			s.AddRange(rune(i.B), rune(i.E))
		}
	}
	return s
}

func buildModel(seq []ins, lo, hi int) *model {
	m := newModel(lo, hi)
	for _, i := range seq {
		m.addRange(i.B, i.E)
	}
	return m
}

// observe compares every read-only observable of s with m over [m.lo-1.., m.hi+2].
func observe(class string, s *set.Set, m *model, w map[string]any) bool {
	good := true
	safe(class+"/Has", w, func() {
		for x := m.lo; x <= m.hi+2; x++ {
			if got := s.Has(rune(x)); got != m.has(x) {
				violate(class+"/Has", fmt.Sprintf("Has(%d)=%v, model %v", x, got, m.has(x)), w)
				good = false
				return
			}
		}
	})
	safe(class+"/Len", w, func() {
		if got := s.Len(); got != m.len() {
			violate(class+"/Len", fmt.Sprintf("Len()=%d, model %d", got, m.len()), w)
			good = false
		}
	})
	if m.hi-m.lo < 4096 {
		safe(class+"/String", w, func() {
			if got := s.String(); got != m.str() {
				violate(class+"/String", fmt.Sprintf("String()=%q, model %q", got, m.str()), w)
				good = false
			}
		})
	}
	return good
}

func checkUnary(seq []ins, lo, hi int, limits []int, class string) {
	w := map[string]any{"ops": seqStr(seq)}
	m := buildModel(seq, lo, hi)
	var s *set.Set
	if !safe(class+"/build", w, func() { s = build(seq) }) {
		return
	}
	res.Evals++
	observe(class+"/build", s, m, w)
	// Copy: equal content, independent
	safe(class+"/Copy", w, func() {
		c := s.Copy()
		observe(class+"/Copy", c, m, w)
		if !c.Equal(s) || !s.Equal(c) {
			violate(class+"/Copy-Equal", "copy not Equal to original", w)
		}
		c.AddRange(rune(hi+1), rune(hi+1))
		c.AddRange(rune(lo), rune(lo))
		observe(class+"/Copy-aliasing", s, m, w)
	})
	for _, lim := range limits {
		wl := map[string]any{"ops": seqStr(seq), "limit": lim}
		safe(class+"/Complement", wl, func() {
			c := s.Complement(rune(lim))
			// model of the complement within [0,lim]
			top := lim
			if hi+2 > top {
				top = hi + 2
			}
			cm := newModel(0, top)
			for x := 0; x <= lim; x++ {
				if !m.has(x) {
					cm.bits[x] = true
				}
			}
			res.Evals++
			observe(class+"/Complement", c, cm, wl)
			observe(class+"/Complement-operand", s, m, wl)
		})
	}
	if len(seq) >= 2 {
		nontr["u:"+seqStr(seq)] = true
	}
}

func checkPair(a, b []ins, lo, hi int, class string) {
	w := map[string]any{"a": seqStr(a), "b": seqStr(b)}
	ma, mb := buildModel(a, lo, hi), buildModel(b, lo, hi)
	var sa, sb *set.Set
	if !safe(class+"/build", w, func() { sa, sb = build(a), build(b) }) {
		return
	}
	res.Evals++
	mu := ma.clone()
	inter := false
	equal := true
	for x := lo; x <= hi; x++ {
		if mb.has(x) {
			mu.bits[x-lo] = true
		}
		if ma.has(x) && mb.has(x) {
			inter = true
		}
		if ma.has(x) != mb.has(x) {
			equal = false
		}
	}
	safe(class+"/Union", w, func() {
		u := sa.Union(sb)
		observe(class+"/Union", u, mu, w)
		u2 := sb.Union(sa)
		observe(class+"/Union-commuted", u2, mu, w)
		if !u.Equal(u2) {
			violate(class+"/Union-Equal", "a∪b not Equal to b∪a", w)
		}
		// mutate result, operands must be untouched
		u.AddRange(rune(lo), rune(hi+1))
	})
	safe(class+"/Intersects", w, func() {
		if got := sa.Intersects(sb); got != inter {
			violate(class+"/Intersects", fmt.Sprintf("a.Intersects(b)=%v, model %v", got, inter), w)
		}
		if got := sb.Intersects(sa); got != inter {
			violate(class+"/Intersects", fmt.Sprintf("b.Intersects(a)=%v, model %v", got, inter), w)
		}
	})
	safe(class+"/Equal", w, func() {
		if got := sa.Equal(sb); got != equal {
			violate(class+"/Equal", fmt.Sprintf("a.Equal(b)=%v, model %v", got, equal), w)
		}
		if got := sb.Equal(sa); got != equal {
			violate(class+"/Equal", fmt.Sprintf("b.Equal(a)=%v, model %v", got, equal), w)
		}
	})
	observe(class+"/operand-a", sa, ma, w)
	observe(class+"/operand-b", sb, mb, w)
	if len(a) > 0 && len(b) > 0 {
		nontr["p:"+seqStr(a)+"|"+seqStr(b)] = true
	}
	if inter {
		res.Counters["pairs_intersecting"]++
	}
	if equal {
		res.Counters["pairs_equal"]++
	}
}


// ---------- live mode: observations interleaved with mutations ----------
// The one-shot cases above build a set and then look at it. Here up to three live sets are mutated, queried,
// copied, united and complemented in one random sequence, each shadowed by a model from the first operation on, so
// that anything an observer leaves behind in the set (a search position, a cached length or string) or any sharing
// between a result and its operands shows as a later disagreement.
type liveOp struct {
	Op   string `json:"op"` // add has len str obs copy union comp inter equal
	D    int    `json:"d"`
	A    int    `json:"a"`
	B    int    `json:"b"`
	X, Y int
}

func (o liveOp) String() string {
	switch o.Op {
	case "add":
		return fmt.Sprintf("s%d.AddRange(%d,%d)", o.D, o.X, o.Y)
	case "has":
		return fmt.Sprintf("s%d.Has(%d)", o.D, o.X)
	case "len":
		return fmt.Sprintf("s%d.Len()", o.D)
	case "str":
		return fmt.Sprintf("s%d.String()", o.D)
	case "obs":
		return fmt.Sprintf("observe(s%d)", o.D)
	case "copy":
		return fmt.Sprintf("s%d=s%d.Copy()", o.D, o.A)
	case "union":
		return fmt.Sprintf("s%d=s%d.Union(s%d)", o.D, o.A, o.B)
	case "comp":
		return fmt.Sprintf("s%d=s%d.Complement(%d)", o.D, o.A, o.X)
	case "inter":
		return fmt.Sprintf("s%d.Intersects(s%d)", o.A, o.B)
	case "equal":
		return fmt.Sprintf("s%d.Equal(s%d)", o.A, o.B)
	}
	return o.Op
}

func runLive(ops []liveOp, top int, class string) {
	script := make([]string, len(ops))
	for i, o := range ops {
		script[i] = o.String()
	}
	w := map[string]any{"live": ops, "top": top, "script": strings.Join(script, "; ")}
	sets := []*set.Set{set.NewSet(), set.NewSet(), set.NewSet()}
	ms := []*model{newModel(0, top), newModel(0, top), newModel(0, top)}
	res.Evals++
	mutated, observedBetween := false, false
	for k, o := range ops {
		wk := map[string]any{"live": ops[:k+1], "top": top, "script": strings.Join(script[:k+1], "; "), "failing_step": script[k]}
		bad := false
		ok := safe(class+"/"+o.Op, wk, func() {
			switch o.Op {
			case "add":
				if o.X == o.Y && (o.X+o.Y)%4 == 0 {
					sets[o.D].Add(rune(o.X))
				} else {
					sets[o.D].AddRange(rune(o.X), rune(o.Y))
				}
				ms[o.D].addRange(o.X, o.Y)
				if observedBetween {
					res.Counters["live_mutations_after_an_observation"]++
				}
				mutated = true
			case "has":
				if got := sets[o.D].Has(rune(o.X)); got != ms[o.D].has(o.X) {
					violate(class+"/Has", fmt.Sprintf("step %d: %s = %v, model %v", k, o, got, ms[o.D].has(o.X)), wk)
					bad = true
				}
				observedBetween = observedBetween || mutated
			case "len":
				if got := sets[o.D].Len(); got != ms[o.D].len() {
					violate(class+"/Len", fmt.Sprintf("step %d: %s = %d, model %d", k, o, got, ms[o.D].len()), wk)
					bad = true
				}
				observedBetween = observedBetween || mutated
			case "str":
				if got := sets[o.D].String(); got != ms[o.D].str() {
					violate(class+"/String", fmt.Sprintf("step %d: %s = %q, model %q", k, o, got, ms[o.D].str()), wk)
					bad = true
				}
				observedBetween = observedBetween || mutated
			case "obs":
				bad = !observe(class+"/observe", sets[o.D], ms[o.D], wk)
			case "copy":
				c := sets[o.A].Copy()
				sets[o.D], ms[o.D] = c, ms[o.A].clone()
			case "union":
				u := sets[o.A].Union(sets[o.B])
				mu := ms[o.A].clone()
				for x := 0; x <= top; x++ {
					if ms[o.B].has(x) {
						mu.bits[x] = true
					}
				}
				sets[o.D], ms[o.D] = u, mu
			case "comp":
				c := sets[o.A].Complement(rune(o.X))
				cm := newModel(0, top)
				for x := 0; x <= o.X && x <= top; x++ {
					if !ms[o.A].has(x) {
						cm.bits[x] = true
					}
				}
				sets[o.D], ms[o.D] = c, cm
			case "inter", "equal":
				inter, equal := false, true
				for x := 0; x <= top; x++ {
					if ms[o.A].has(x) && ms[o.B].has(x) {
						inter = true
					}
					if ms[o.A].has(x) != ms[o.B].has(x) {
						equal = false
					}
				}
				if o.Op == "inter" {
					if got := sets[o.A].Intersects(sets[o.B]); got != inter {
						violate(class+"/Intersects", fmt.Sprintf("step %d: %s = %v, model %v", k, o, got, inter), wk)
						bad = true
					}
				} else if got := sets[o.A].Equal(sets[o.B]); got != equal {
					violate(class+"/Equal", fmt.Sprintf("step %d: %s = %v, model %v", k, o, got, equal), wk)
					bad = true
				}
			}
		})
		if !ok || bad {
			return
		}
	}
	// final: every live set still equals its model (results and operands alike)
	for i := range sets {
		if !observe(fmt.Sprintf("%s/final-s%d", class, i), sets[i], ms[i], w) {
			return
		}
	}
	nontr["l:"+w["script"].(string)] = true
}

func genLive(rng *rand.Rand, top int) []liveOp {
	n := 8 + rng.Intn(40)
	var ops []liveOp
	var ends []int // endpoints used so far: queries aim at them and their neighbours
	pt := func() int {
		if len(ends) > 0 && rng.Intn(3) > 0 {
			x := ends[rng.Intn(len(ends))] + rng.Intn(5) - 2
			if x < 0 {
				x = 0
			}
			if x > top-2 {
				x = top - 2
			}
			return x
		}
		return rng.Intn(top - 1)
	}
	for len(ops) < n {
		d, a, b := rng.Intn(3), rng.Intn(3), rng.Intn(3)
		if rng.Intn(3) > 0 {
			d = 0 // most of the action on one set
		}
		switch r := rng.Intn(100); {
		case r < 38:
			x := pt()
			y := x
			switch rng.Intn(4) {
			case 0:
			case 1:
				y = x + rng.Intn(3)
			default:
				y = x + rng.Intn(top-1-x)
			}
			if y > top-2 {
				y = top - 2
			}
			ends = append(ends, x, y)
			ops = append(ops, liveOp{Op: "add", D: d, X: x, Y: y})
		case r < 66:
			ops = append(ops, liveOp{Op: "has", D: d, X: pt()})
		case r < 71:
			ops = append(ops, liveOp{Op: "len", D: d})
		case r < 74:
			ops = append(ops, liveOp{Op: "str", D: d})
		case r < 76:
			ops = append(ops, liveOp{Op: "obs", D: d})
		case r < 81:
			if d != a {
				ops = append(ops, liveOp{Op: "copy", D: d, A: a})
			}
		case r < 87:
			ops = append(ops, liveOp{Op: "union", D: d, A: a, B: b})
		case r < 91:
			ops = append(ops, liveOp{Op: "comp", D: d, A: a, X: pt()})
		case r < 96:
			ops = append(ops, liveOp{Op: "inter", A: a, B: b})
		default:
			ops = append(ops, liveOp{Op: "equal", A: a, B: b})
		}
	}
	return ops
}

// ---------- the top of the rune range ----------
// rune is int32: math.MaxInt32 is a value Add/AddRange/Complement accept. A window of 41 values below and including
// it is modelled exactly; everything below the window is only counted. Sets that live in the window are observed in
// full (Has on every value, Len, String, Copy, Union, Intersects, Equal); the complement within [0, MaxInt32] — a set
// of two thousand million members — through Len and the window, and it is then added to and read again.
const topHi = 1<<31 - 1
const topLo = topHi - 40

func checkTop(rng *rand.Rand) {
	gen := func() []ins {
		n := rng.Intn(6)
		s := make([]ins, 0, n)
		for j := 0; j < n; j++ {
			b := topLo + rng.Intn(41)
			e := b
			switch rng.Intn(3) {
			case 1:
				e = b + rng.Intn(3)
			case 2:
				e = b + rng.Intn(topHi-b+1)
			}
			if e > topHi {
				e = topHi
			}
			s = append(s, ins{b, e})
		}
		if rng.Intn(3) == 0 {
			s = append(s, ins{topHi - rng.Intn(2), topHi})
		}
		return s
	}
	a, b := gen(), gen()
	w := map[string]any{"ops": seqStr(a), "b": seqStr(b), "universe": "the 41 largest runes"}
	in := func(seq []ins, x int) bool {
		for _, i := range seq {
			if x >= i.B && x <= i.E {
				return true
			}
		}
		return false
	}
	count := func(seq []ins) int {
		n := 0
		for x := topLo; x <= topHi; x++ {
			if in(seq, x) {
				n++
			}
		}
		return n
	}
	str := func(seq []ins) string {
		var p []string
		for x := topLo; x <= topHi; x++ {
			if in(seq, x) {
				p = append(p, strconv.Itoa(x))
			}
		}
		return "[" + strings.Join(p, " ") + "]"
	}
	var sa, sb *set.Set
	if !safe("top/build", w, func() { sa, sb = build(a), build(b) }) {
		return
	}
	res.Evals++
	res.Counters["top_of_range_cases"]++
	obs := func(class string, s *set.Set, seq []ins) {
		safe(class, w, func() {
			for x := topLo - 2; x <= topHi; x++ {
				if got := s.Has(rune(x)); got != in(seq, x) {
					violate(class+"/Has", fmt.Sprintf("Has(%d)=%v, model %v", x, got, in(seq, x)), w)
					return
				}
			}
			if got := s.Len(); got != count(seq) {
				violate(class+"/Len", fmt.Sprintf("Len()=%d, model %d", got, count(seq)), w)
			}
			if got := s.String(); got != str(seq) {
				violate(class+"/String", fmt.Sprintf("String()=%q, model %q", got, str(seq)), w)
			}
		})
	}
	obs("top/a", sa, a)
	safe("top/Copy", w, func() { obs("top/Copy", sa.Copy(), a) })
	ab := append(append([]ins{}, a...), b...)
	safe("top/Union", w, func() {
		obs("top/Union", sa.Union(sb), ab)
		obs("top/Union-commuted", sb.Union(sa), ab)
	})
	inter, equal := false, true
	for x := topLo; x <= topHi; x++ {
		inter = inter || in(a, x) && in(b, x)
		equal = equal && in(a, x) == in(b, x)
	}
	safe("top/Intersects-Equal", w, func() {
		if got := sa.Intersects(sb); got != inter {
			violate("top/Intersects", fmt.Sprintf("a.Intersects(b)=%v, model %v", got, inter), w)
		}
		if got := sb.Intersects(sa); got != inter {
			violate("top/Intersects", fmt.Sprintf("b.Intersects(a)=%v, model %v", got, inter), w)
		}
		if got := sa.Equal(sb); got != equal {
			violate("top/Equal", fmt.Sprintf("a.Equal(b)=%v, model %v", got, equal), w)
		}
	})
	// complement within [0, MaxInt32], then inserted into, then read again
	safe("top/Complement", w, func() {
		c := sa.Complement(topHi)
		want := topLo + (41 - count(a)) // every value below the window, plus the window's non-members
		if got := c.Len(); got != want {
			violate("top/Complement-Len", fmt.Sprintf("Len of the complement within [0, MaxInt32] = %d, model %d", got, want), w)
		}
		for x := topLo - 2; x <= topHi; x++ {
			if got := c.Has(rune(x)); got != !in(a, x) {
				violate("top/Complement-Has", fmt.Sprintf("complement Has(%d)=%v, model %v", x, got, !in(a, x)), w)
				return
			}
		}
		lo := rng.Intn(200)
		hi := lo + rng.Intn(60)
		c.AddRange(rune(lo), rune(hi)) // already members: nothing may change
		extra := ins{topLo + rng.Intn(41), topHi - rng.Intn(3)}
		if extra.B <= extra.E {
			c.AddRange(rune(extra.B), rune(extra.E))
		}
		want2 := topLo
		for x := topLo; x <= topHi; x++ {
			m := !in(a, x) || extra.B <= extra.E && x >= extra.B && x <= extra.E
			if m {
				want2++
			}
			if got := c.Has(rune(x)); got != m {
				violate("top/Complement-then-AddRange-Has", fmt.Sprintf("after Complement(MaxInt32), AddRange(%d,%d), AddRange(%d,%d): Has(%d)=%v, model %v", lo, hi, extra.B, extra.E, x, got, m), w)
				return
			}
		}
		if got := c.Len(); got != want2 {
			violate("top/Complement-then-AddRange-Len", fmt.Sprintf("after Complement(MaxInt32), AddRange(%d,%d), AddRange(%d,%d): Len()=%d, model %d", lo, hi, extra.B, extra.E, got, want2), w)
		}
		for _, x := range []int{lo, hi, (lo + hi) / 2, 0, 1000} {
			if !c.Has(rune(x)) {
				violate("top/Complement-then-AddRange-Has", fmt.Sprintf("after Complement(MaxInt32), AddRange(%d,%d): Has(%d)=false", lo, hi, x), w)
			}
		}
	})
	obs("top/operand-a", sa, a)
	obs("top/operand-b", sb, b)
	nontr["t:"+seqStr(a)+"|"+seqStr(b)] = true
}

func main() {
	tier := os.Args[1]
	go watchdog()
	seed, _ := strconv.ParseInt(os.Args[2], 10, 64)
	if len(os.Args) > 3 && os.Args[3] == "--replay" {
		replay(os.Args[4])
		return
	}
	// (1) bounded-exhaustive: universe 0..6
	var ranges []ins
	for b := 0; b <= 6; b++ {
		for e := b; e <= 6; e++ {
			ranges = append(ranges, ins{b, e})
		}
	}
	var seqs [][]ins // all sequences of <=2 insertions
	seqs = append(seqs, nil)
	for _, a := range ranges {
		seqs = append(seqs, []ins{a})
	}
	for _, a := range ranges {
		for _, b := range ranges {
			seqs = append(seqs, []ins{a, b})
		}
	}
	n3 := 0
	for _, s := range seqs {
		checkUnary(s, 0, 6, []int{0, 3, 6, 8}, "exh")
	}
	for _, a := range ranges {
		for _, b := range ranges {
			for _, c := range ranges {
				checkUnary([]ins{a, b, c}, 0, 6, []int{0, 3, 6}, "exh")
				n3++
			}
		}
	}
	res.Counters["exhaustive_sequences_le3"] = len(seqs) + n3
	pairs := 0
	for _, a := range seqs {
		for _, b := range seqs {
			checkPair(a, b, 0, 6, "exh")
			pairs++
		}
	}
	res.Counters["exhaustive_pairs_le2"] = pairs
	res.Exhaustive = true

	// (2) random
	rng := rand.New(rand.NewSource(seed))
	nrand := 200000
	if tier == "thorough" {
		nrand = 3000000
	}
	for i := 0; i < nrand; i++ {
		lo, hi := 0, 8+rng.Intn(40)
		big := false
		switch r := rng.Intn(100); {
		case r < 2: // the neighbourhood peg itself uses: 0x10FFFF / 0x110000
			lo, hi = 0x10FFFF-20, 0x110000+4
			big = true
		case r < 12:
			lo = rng.Intn(1000)
			hi = lo + 8 + rng.Intn(30)
		}
		gen := func() []ins {
			n := rng.Intn(13)
			s := make([]ins, 0, n)
			for j := 0; j < n; j++ {
				b := lo + rng.Intn(hi-lo+1)
				e := b
				switch rng.Intn(4) {
				case 0:
				case 1:
					e = b + rng.Intn(3)
				default:
					e = b + rng.Intn(hi-b+1)
				}
				if e > hi {
					e = hi
				}
				s = append(s, ins{b, e})
			}
			return s
		}
		a := gen()
		lims := []int{hi, lo + rng.Intn(hi-lo+1), hi + 1}
		if lo > 0 {
			lims = append(lims, lo)
		}
		if big {
			lims = []int{0x10FFFF, 0x110000}
			if rng.Intn(2) == 0 {
				a = append(a, ins{0x110000, 0x110000}) // exactly what tree/peg.go does for '.'
			}
			// complement over a huge universe: only check a window, plus Len
			checkBig(a, lims)
			res.Counters["random_big"]++
			continue
		}
		checkUnary(a, lo, hi, lims, "rnd")
		checkPair(a, gen(), lo, hi, "rnd")
		res.Counters["random"]++
	}

	// (3) inverted ranges (mathematically empty) mixed into sequences
	ninv := nrand / 20
	for i := 0; i < ninv; i++ {
		hi := 8 + rng.Intn(12)
		n := 1 + rng.Intn(5)
		var s []ins
		for j := 0; j < n; j++ {
			b := rng.Intn(hi + 1)
			e := rng.Intn(hi + 1)
			s = append(s, ins{b, e})
		}
		checkUnary(s, 0, hi, []int{hi, hi / 2}, "inv")
		checkPair(s, []ins{{rng.Intn(hi + 1), hi}}, 0, hi, "inv")
		res.Counters["random_with_inverted"]++
	}

	// (5) the top of the rune range
	for i := 0; i < nrand/10; i++ {
		checkTop(rng)
	}
	// (4) live sets: queries, copies, unions and complements interleaved with further insertions
	nlive := nrand / 2
	liveSample := ""
	for i := 0; i < nlive; i++ {
		top := 10 + rng.Intn(60)
		ops := genLive(rng, top)
		runLive(ops, top, "live")
		res.Counters["live_sequences"]++
		res.Counters["live_operations"] += len(ops)
		if i == 0 {
			script := make([]string, len(ops))
			for k, o := range ops {
				script[k] = o.String()
			}
			liveSample = strings.Join(script, "; ")
		}
	}

	res.Nontrivial = len(nontr)
	res.Samples = []any{
		map[string]any{"kind": "exhaustive sequence", "ops": seqStr([]ins{{1, 2}, {4, 5}, {2, 4}}), "universe": "0..6", "checked": "Has 0..8, Len, String, Copy, Complement(0|3|6)"},
		map[string]any{"kind": "exhaustive pair", "a": seqStr([]ins{{0, 2}, {3, 5}}), "b": seqStr([]ins{{0, 5}}), "checked": "Union both ways, Intersects both ways, Equal both ways, operands re-read"},
		map[string]any{"kind": "peg's own use", "ops": "Add(0x110000)", "limit": 0x10FFFF, "checked": "Complement = [0,0x10FFFF]"},
	}
	res.Samples = append(res.Samples, map[string]any{"kind": "live sequence (every step compared with the model, all three sets re-read at the end)", "script": liveSample})
	json.NewEncoder(os.Stdout).Encode(res)
}

// checkBig: universes near the maximum code point; observation restricted to windows and Len.
func checkBig(seq []ins, lims []int) {
	w := map[string]any{"ops": seqStr(seq)}
	var s *set.Set
	if !safe("big/build", w, func() { s = build(seq) }) {
		return
	}
	res.Evals++
	in := func(x int) bool {
		for _, i := range seq {
			if x >= i.B && x <= i.E {
				return true
			}
		}
		return false
	}
	for _, lim := range lims {
		wl := map[string]any{"ops": seqStr(seq), "limit": lim}
		safe("big/Complement", wl, func() {
			c := s.Complement(rune(lim))
			want := 0
			for x := 0x10FFFF - 20; x <= lim; x++ {
				if !in(x) {
					want++
				}
			}
			want += 0x10FFFF - 20 // everything below the window is in the complement
			if got := c.Len(); got != want {
				violate("big/Complement-Len", fmt.Sprintf("Len of complement = %d, model %d", got, want), wl)
			}
			for _, x := range []int{0, 1, 0x7f, 0xffff, 0x10000} {
				if !c.Has(rune(x)) {
					violate("big/Complement-Has", fmt.Sprintf("complement lacks %d", x), wl)
				}
			}
			for x := 0x10FFFF - 21; x <= 0x110000+6; x++ {
				wantHas := x <= lim && !in(x)
				if got := c.Has(rune(x)); got != wantHas {
					violate("big/Complement-Has", fmt.Sprintf("complement Has(%#x)=%v, model %v", x, got, wantHas), wl)
					break
				}
			}
			nontr["b:"+seqStr(seq)+fmt.Sprint(lim)] = true
		})
	}
}

func replay(path string) {
	b, err := os.ReadFile(path)
	if err != nil {
		fmt.Println(err)
		os.Exit(2)
	}
	var f struct {
		Witness map[string]any `json:"witness"`
		Summary string         `json:"summary"`
	}
	json.Unmarshal(b, &f)
	parse := func(s string) []ins {
		var r []ins
		for _, p := range strings.Split(s, ";") {
			var i ins
			if _, err := fmt.Sscanf(p, "AddRange(%d,%d)", &i.B, &i.E); err == nil {
				r = append(r, i)
			}
		}
		return r
	}
	if lv, ok := f.Witness["live"]; ok {
		var ops []liveOp
		bb, _ := json.Marshal(lv)
		json.Unmarshal(bb, &ops)
		top := 80
		if t, ok := f.Witness["top"].(float64); ok {
			top = int(t)
		}
		runLive(ops, top, "replay")
		json.NewEncoder(os.Stdout).Encode(res)
		return
	}
	hi := 48
	if ops, ok := f.Witness["ops"].(string); ok {
		seq := parse(ops)
		for _, i := range seq {
			if i.E+2 > hi {
				hi = i.E + 2
			}
			if i.B+2 > hi {
				hi = i.B + 2
			}
		}
		lims := []int{hi}
		if l, ok := f.Witness["limit"].(float64); ok {
			lims = []int{int(l)}
		}
		if hi > 100000 {
			checkBig(seq, lims)
		} else {
			checkUnary(seq, 0, hi, lims, "replay")
		}
	} else {
		a, _ := f.Witness["a"].(string)
		bb, _ := f.Witness["b"].(string)
		checkPair(parse(a), parse(bb), 0, hi, "replay")
	}
	json.NewEncoder(os.Stdout).Encode(res)
}
