// frontdrv: drives pointlander/peg's self-hosted front end (a copy of peg.peg.go is compiled next to this file, like
// cmd/peg-bootstrap does) and tree.Compile in-process. JSON lines on stdin/stdout.
// The rule tree is read ONLY through the tree package's exported methods (generic walker), no hook needed.
package main

import (
	"bufio"
	"bytes"
	"crypto/sha256"
	"encoding/hex"
	"encoding/json"
	"fmt"
	"os"
	"strings"
	"sync"

	"github.com/pointlander/peg/tree"
)

type Req struct {
	ID      int
	Text    string
	Inline  bool
	Switch  bool
	NoAST   bool
	Strict  bool
	Args    []string
	Compile bool // also run Compile
	Code    bool // return the emitted code itself (not only its hash)
	Dump    bool // return the tree dump
	Twice   bool // generate twice from two fresh trees with ONE shared argument slice (which has spare capacity)
	Conc    []Req
	Gor     int
	Reps    int
}

type Res struct {
	ID         int
	Accepted   bool
	ParseErr   string           `json:",omitempty"`
	Panic      string           `json:",omitempty"`
	Tree       string           `json:",omitempty"`
	TreeSHA    string           `json:",omitempty"`
	CodeSHA    string           `json:",omitempty"`
	Code       string           `json:",omitempty"`
	CompileErr string           `json:",omitempty"`
	Repeat     string           `json:",omitempty"` // non-empty: the second generation with the same argument list differed
	Conc       []map[string]int `json:",omitempty"` // per sub-request: distinct results -> count
}

type nodeLike[T any] interface {
	comparable
	GetType() tree.Type
	String() string
	Front() T
	Next() T
}

var typeNames = map[tree.Type]string{
	tree.TypeUnknown: "Unknown", tree.TypeRule: "Rule", tree.TypeName: "Name", tree.TypeDot: "Dot", tree.TypeCharacter: "Character",
	tree.TypeRange: "Range", tree.TypeString: "String", tree.TypePredicate: "Predicate", tree.TypeStateChange: "StateChange",
	tree.TypeCommit: "Commit", tree.TypeAction: "Action", tree.TypeSpace: "Space", tree.TypeComment: "Comment", tree.TypePackage: "Package",
	tree.TypeImport: "Import", tree.TypeState: "State", tree.TypeAlternate: "Alternate", tree.TypeUnorderedAlternate: "UnorderedAlternate",
	tree.TypeSequence: "Sequence", tree.TypePeekFor: "PeekFor", tree.TypePeekNot: "PeekNot", tree.TypeQuery: "Query", tree.TypeStar: "Star",
	tree.TypePlus: "Plus", tree.TypePeg: "Peg", tree.TypePush: "Push", tree.TypeImplicitPush: "ImplicitPush", tree.TypeNil: "Nil",
}

func dump[T nodeLike[T]](sb *strings.Builder, n T, depth int) {
	var zero T
	for n != zero {
		fmt.Fprintf(sb, "%s%s %q\n", strings.Repeat(" ", depth), typeNames[n.GetType()], n.String())
		if depth < 2000 {
			dump(sb, n.Front(), depth+1)
		}
		n = n.Next()
	}
}

func sha(b []byte) string { h := sha256.Sum256(b); return hex.EncodeToString(h[:]) }

func one(req *Req) (res Res) {
	if req.Twice {
		// a caller that keeps its argument list in a slice built with append (cap > len) and generates twice
		args := req.Args
		if args == nil {
			args = []string{"peg"}
		}
		shared := append(make([]string, 0, len(args)+3), args...)
		r1 := *req
		r1.Twice, r1.Args = false, shared
		a := one(&r1)
		r2 := *req
		r2.Twice, r2.Args = false, shared
		b := one(&r2)
		if a.CodeSHA != b.CodeSHA || a.CompileErr != b.CompileErr || strings.Join(shared, "\x00") != strings.Join(args, "\x00") {
			a.Repeat = fmt.Sprintf("first %s / second %s; argument list afterwards %q", a.CodeSHA[:12], b.CodeSHA[:min(12, len(b.CodeSHA))], shared)
		}
		return a
	}
	res.ID = req.ID
	defer func() {
		if r := recover(); r != nil {
			res.Panic = fmt.Sprint(r)
		}
	}()
	p := &Peg[uint32]{Tree: tree.New(req.Inline, req.Switch, req.NoAST), Buffer: req.Text}
	_ = p.Init(Size[uint32](1 << 15))
	if err := p.Parse(); err != nil {
		res.ParseErr = err.Error()
		return
	}
	res.Accepted = true
	p.Execute()
	var sb strings.Builder
	dump(&sb, p.Tree.Front(), 0)
	res.TreeSHA = sha([]byte(sb.String()))
	if req.Dump {
		res.Tree = sb.String()
	}
	if req.Compile {
		var out bytes.Buffer
		p.Strict = req.Strict
		args := req.Args
		if args == nil {
			args = []string{"peg"}
		}
		if err := p.Compile("x.go", args, &out); err != nil {
			res.CompileErr = err.Error()
		}
		res.CodeSHA = sha(out.Bytes())
		if req.Code {
			res.Code = out.String()
		}
	}
	return
}

// conc runs the sub-requests from Gor goroutines, Reps times each; no synchronisation between the goroutines
// other than the final join (anything else could hide a race from the detector).
func conc(req *Req) Res {
	n := len(req.Conc)
	per := make([][]string, req.Gor)
	var wg sync.WaitGroup
	for g := 0; g < req.Gor; g++ {
		wg.Add(1)
		go func(g int) {
			defer wg.Done()
			var mine []string
			for rep := 0; rep < req.Reps; rep++ {
				for k := 0; k < n; k++ {
					i := (k*5 + g*3 + rep) % n
					sub := req.Conc[i]
					r := one(&sub)
					b, _ := json.Marshal(r)
					mine = append(mine, fmt.Sprintf("%d|%s", i, b))
				}
			}
			per[g] = mine
		}(g)
	}
	wg.Wait()
	out := make([]map[string]int, n)
	for i := range out {
		out[i] = map[string]int{}
	}
	for _, mine := range per {
		for _, s := range mine {
			var i int
			fmt.Sscanf(s, "%d|", &i)
			out[i][s[strings.IndexByte(s, '|')+1:]]++
		}
	}
	return Res{ID: req.ID, Conc: out}
}

func main() {
	sc := bufio.NewScanner(os.Stdin)
	sc.Buffer(make([]byte, 1<<20), 1<<28)
	w := bufio.NewWriter(os.Stdout)
	defer w.Flush()
	prog, _ := os.Create(os.Args[1]) // progress file: id of the request being processed
	for sc.Scan() {
		var req Req
		if err := json.Unmarshal(sc.Bytes(), &req); err != nil {
			fmt.Fprintln(os.Stderr, "bad request:", err)
			os.Exit(3)
		}
		fmt.Fprintf(prog, "%d\n", req.ID)
		var res Res
		if len(req.Conc) > 0 {
			res = conc(&req)
		} else {
			res = one(&req)
		}
		b, _ := json.Marshal(res)
		w.Write(b)
		w.WriteByte('\n')
		w.Flush()
	}
}
