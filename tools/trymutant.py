#!/usr/bin/env python3
"""trymutant.py <mutant-dir> <name> <prop> [checks...]
Confirms a seeded change and runs checks against it, in a scratch worktree of /repo (never in /repo itself):
  1. worktree of /repo HEAD under /tmp/mutwork/<name>, patch applied (git apply, falling back to --3way)
  2. go build + baseline test suite must pass with the patch
  3. the author's demo must PASS on the unpatched tree and FAIL on the patched tree
  4. each named check (quick tier) is run with VERIF_REPO pointing at the patched tree; exit code + first VIOLATION line recorded
Writes /verif/seeded/<name>/{patch.diff,demo/...,meta.json}. The worktree is removed afterwards."""
import json, os, shutil, subprocess, sys, time
mdir, name, prop = sys.argv[1], sys.argv[2], sys.argv[3]
checks = sys.argv[4:] or [prop]
work = f"/tmp/mutwork/{name}"
env = dict(os.environ, GOFLAGS="-mod=mod", GOPROXY="off")
def sh(cmd, cwd=None, timeout=3600, extra=None):
    e = dict(env); e.update(extra or {})
    p = subprocess.run(cmd, shell=True, cwd=cwd, env=e, capture_output=True, text=True, errors="replace", timeout=timeout)
    return p.returncode, (p.stdout + p.stderr)
os.makedirs("/tmp/mutwork", exist_ok=True)
# the checks run from a snapshot of the COMMITTED /verif, so that editing /verif meanwhile cannot disturb them
SNAP = f"/tmp/mutwork/snap-{os.getpid()}"
shutil.rmtree(SNAP, ignore_errors=True); os.makedirs(SNAP)
rc, out = sh(f"git -C /verif archive HEAD | tar -x -C {SNAP} && cd {SNAP} && ./check setup")
assert rc == 0, out
import atexit
atexit.register(lambda: shutil.rmtree(SNAP, ignore_errors=True))
sh(f"git -C /repo worktree remove --force {work}")
shutil.rmtree(work, ignore_errors=True)
base = os.environ.get("MUT_BASE", "HEAD")  # a seeded change written against an older /repo commit can be tried there
rc, out = sh(f"git -C /repo worktree add -q --detach {work} {base}")
assert rc == 0, out
meta = {"name": name, "property": prop, "source": mdir, "repo_head": sh(f"git -C /repo rev-parse --short {base}")[1].strip()}
try:
    patch = os.path.join(mdir, "patch.diff")
    rc, out = sh(f"git apply {patch}", cwd=work)
    if rc != 0:
        rc, out = sh(f"git apply --3way {patch}", cwd=work)
        meta["applied_with"] = "--3way"
    if rc != 0:
        # template/emitter patches carry a regenerated peg.peg.go that no longer applies: apply the rest and regenerate
        rc, out = sh(f"git apply --exclude=peg.peg.go {patch} || git apply --3way --exclude=peg.peg.go {patch}", cwd=work)
        meta["applied_with"] = "without peg.peg.go, regenerated"
    meta["applies"] = rc == 0
    if rc != 0:
        meta["apply_error"] = out[-2000:]
        raise SystemExit
    rc, out = sh(f"/verif/tools/regen.sh {work}", timeout=600)
    meta["baseline_with_patch"] = out.strip().splitlines()[-1] if out.strip() else ""
    meta["baseline_ok"] = rc == 0
    # the effective patch against HEAD (what was really tested)
    rc2, diff = sh("git diff", cwd=work)
    dst = f"/verif/seeded/{name}"
    shutil.rmtree(dst, ignore_errors=True)
    os.makedirs(dst, exist_ok=True)
    open(os.path.join(dst, "patch.diff"), "w").write(diff)
    demo_dst = os.path.join(dst, "demo")
    shutil.copytree(mdir, demo_dst, ignore=shutil.ignore_patterns("patch.diff", "*.log", "peg"))
    demo = os.path.join(mdir, "demo.sh")
    if os.path.exists(demo):
        rc_clean, out_clean = sh(f"bash {demo} /repo", cwd=mdir, timeout=900)
        rc_pat, out_pat = sh(f"bash {demo} {work}", cwd=mdir, timeout=900)
        meta["demo_on_unchanged_tree"] = {"exit": rc_clean, "tail": out_clean[-300:]}
        meta["demo_on_patched_tree"] = {"exit": rc_pat, "tail": out_pat[-600:]}
        meta["demo_confirms"] = rc_clean == 0 and rc_pat != 0
    meta["checks"] = {}
    for ck in checks:
        t0 = time.time()
        rc, out = sh(f"./check {ck} quick", cwd=SNAP, extra={"VERIF_REPO": work, "VERIF_OUT": "/tmp/mutwork/out-" + name}, timeout=3000)
        viol = [l for l in out.splitlines() if l.startswith("VIOLATION")]
        first = ""
        lines = out.splitlines()
        for i, l in enumerate(lines):
            if l.startswith("VIOLATION") and i + 1 < len(lines):
                first = lines[i + 1].strip()[:300]
                break
        meta["checks"][ck] = {"exit": rc, "violations": len(viol), "first": first, "seconds": round(time.time() - t0, 1)}
    meta["caught_by"] = [k for k, v in meta["checks"].items() if v["exit"] == 1 and v["violations"] > 0]
finally:
    sh(f"git -C /repo worktree remove --force {work}")
    shutil.rmtree(work, ignore_errors=True)
    shutil.rmtree("/tmp/mutwork/out-" + name, ignore_errors=True)
    os.makedirs(f"/verif/seeded/{name}", exist_ok=True)
    json.dump(meta, open(f"/verif/seeded/{name}/meta.json", "w"), indent=1)
    print(json.dumps({k: meta.get(k) for k in ("name", "applies", "baseline_ok", "demo_confirms", "caught_by")}), flush=True)
    for k, v in meta.get("checks", {}).items():
        print("  ", k, v)
