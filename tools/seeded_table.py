#!/usr/bin/env python3
"""Prints the markdown table of seeded changes from /verif/seeded/*/meta.json (used for DESIGN.md section 6.1)."""
import json, glob, os
DESC = {
 "C01-A": ("always-succeeds analysis never unmarks visited rules: a rule such as `List <- Item ',' List / Item` is judged infallible, callers ignore its result", "a rule whose alternatives call the same rule twice; input on which it fails"),
 "C01-B": ("`? * +` over a choice skip the position save/restore", "loop/option over a choice whose last alternative fails after consuming"),
 "C02-A": ("-switch nullable check skips alternatives with empty first set (pure lookahead / predicate / action): they move in front of the switch", "≥3-way choice with a lookahead-only alternative in the middle"),
 "C02-B": ("set.Intersects misses an interval lying inside a non-lowest interval of the other set", "`'if' … / [a-zA-Z] …` under -switch"),
 "C03-A": ("final Trim acts on a copy of the token buffer: stale tokens after the entry token", "a late, deep failed branch and no memo replay afterwards"),
 "C03-B": ("failed `!e` restores position but not tokenIndex", "`!(X … Y)` where X records tokens and Y fails"),
 "C04-A": ("Execute slices the byte string with rune offsets", "non-ASCII text at or before a capture"),
 "C04-B": ("lookahead over a -switch node does not restore tokenIndex", "-switch and `&( A / B / C )` with pairwise disjoint alternatives that record tokens"),
 "C05-A": ("tree printer slices by byte offset", "multi-byte input"),
 "C05-B": ("printed indentation clamped at 64 levels", "derivation deeper than 64"),
 "C06-A": ("memo table survives Reset", "one reused instance, different buffers"),
 "C06-B": ("memoizedResult uses >= when updating the furthest token", "failing parse, memoised success replayed, inner token ending at the same offset"),
 "C07-A": ("one shared `begin` for nested -noast captures", "-noast, capture enclosing another capture"),
 "C07-B": ("-noast capture loses the multiple-key flag under -switch: first comparison skipped", "-noast -switch, switch case starting with `<( 'a' x / 'b' y )>`, input mixing the two"),
 "C08-A": ("rule type width chosen from a stale rule count", "≤254 written rules but ≥256 ids with actions"),
 "C08-B": ("dry pass and real pass number labels differently after an unused rule", "grammar with a defined-but-unused rule"),
 "C09-A": ("unused-rule warning moved into the countRules goroutine: race on the warning chain", "grammar with an unused rule AND a left-recursive rule"),
 "C09-B": ("recursion check iterates the Rules map: random warning order", "≥2 distinct left-recursion warnings"),
 "C10-A": ("octal escapes parsed into 8 signed bits", "`\\\\200`–`\\\\377`"),
 "C10-B": ("single letters in `[[…]]` become case-sensitive", "`[[xyz]]` with input in the other case"),
 "C11-A": ("maxToken not cleared by Reset", "reused instance, later failure at a smaller offset"),
 "C11-B": ("error message slices the byte string with rune offsets", "multi-byte text before/inside the error token"),
 "C12-A": ("memo table cleared only after successful parses", "failing parse followed by any parse on the same instance"),
 "C12-B": ("Reset fast path when Buffer is unchanged keeps the memo table", "the same failing input twice in a row"),
 "C13-A": ("Execute text sliced from the byte string (as C04-A)", "multi-byte / invalid UTF-8 before a capture"),
 "C13-B": ("end-of-input sentinel set to U+10FFFF", "U+10FFFF in the input or in the grammar"),
 "C14-A": ("-noast `text` variable at package scope", "two -noast instances parsing at once"),
 "C14-B": ("Size option allocates its buffer once per option value", "one option value shared by several instances"),
 "C15-A": ("checkRecursion stops at the first non-consuming alternative", "nullable alternative before the recursive one"),
 "C15-B": ("`e+` treated as never consuming", "recursive reference behind `e+`"),
 "C16-A": ("Intersects misses strict containment", "receiver interval strictly encloses the argument's"),
 "C16-B": ("AddRange merge takes End from the wrong interval", "range bridging ≥2 intervals and ending inside the last"),
 "C17-A": ("negated class introduced into peg.bootstrap.peg (the bootstrap language has none)", "running the bootstrap chain"),
 "C17-B": ("-switch puts the switch before the overlapping ordered alternatives (changes the checked-in front end: `&{…}` read as lookahead)", "front end regenerated without -switch vs the checked-in one on a text with `&{…}`"),
 "C18-A": ("buffered destination, final Flush error ignored", "write fault on the last write only"),
 "C18-B": ("parser printed to stdout without checking the write", "stdout on a full device"),
}
print("| seeded change | what it does | what it needs to manifest | demo confirmed | caught by (quick tier) |")
print("|---|---|---|---|---|")
for f in sorted(glob.glob(os.path.join(os.path.dirname(__file__), "..", "seeded", "*", "meta.json"))):
    m = json.load(open(f))
    d = DESC.get(m["name"], (m.get("what", ""), m.get("needs", "")))
    caught = ", ".join(m.get("caught_by") or []) or "**not caught**"
    print(f"| {m['name']} | {d[0]} | {d[1]} | {'yes' if m.get('demo_confirms') else 'no'} | {caught} |")
