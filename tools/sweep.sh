#!/bin/bash
# usage: tools/sweep.sh <tier> <seed>...   runs every registered check at the given seeds; prints one line per run
cd "$(dirname "${BASH_SOURCE[0]}")/.."
tier="$1"; shift
for seed in "$@"; do
  for p in C01 C02 C03 C04 C05 C06 C07 C08 C09 C10 C11 C12 C13 C14 C15 C16 C17 C18; do
    start=$(date +%s)
    out=$(VERIF_SEED=$seed ./check $p $tier 2>&1)
    rc=$?
    echo "seed=$seed $p rc=$rc $(( $(date +%s) - start ))s $(printf '%s\n' "$out" | grep -c '^VIOLATION') violations; $(printf '%s\n' "$out" | grep -m1 -A1 '^VIOLATION\|^INCONCLUSIVE' | tail -1 | cut -c1-200)"
  done
done
