#!/bin/bash
# Regenerates peg.peg.go in $1 (default /repo) with the tree's own peg until a fixed point (what `go generate`'s
# final step does), then runs the baseline. Used after template/emitter fixes because TestSame pins the bytes.
cd "$(dirname "${BASH_SOURCE[0]}")/.." && . ./env.sh
repo="${1:-/repo}"
cd "$repo" || exit 2
for i in 1 2 3 4; do
  "$GO" build -o /tmp/peg-regen.$$ . || exit 1
  cp peg.peg.go /tmp/peg-regen-before.$$
  /tmp/peg-regen.$$ -inline -switch peg.peg || exit 1
  if cmp -s peg.peg.go /tmp/peg-regen-before.$$; then echo "fixed point after $i round(s)"; break; fi
done
rm -f /tmp/peg-regen.$$ /tmp/peg-regen-before.$$
"$VERIF_ROOT/tools/baseline.sh" "$repo"
