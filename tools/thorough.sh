#!/bin/bash
# usage: tools/thorough.sh Cxx...   runs the thorough tier of the given checks one after the other
cd "$(dirname "${BASH_SOURCE[0]}")/.."
for p in "$@"; do
  start=$(date +%s)
  out=$(./check $p thorough 2>&1)
  rc=$?
  echo "$p thorough rc=$rc $(( $(date +%s) - start ))s $(printf '%s\n' "$out" | grep -c '^VIOLATION') violations"
  printf '%s\n' "$out" | grep -A1 '^VIOLATION\|^INCONCLUSIVE' | head -12 | cut -c1-300
  printf '%s\n' "$out" | grep "thorough seed=" | cut -c1-400
done
