#!/bin/bash
# Runs the repository's pinned baseline (37 tests in . and ./set) with the verif guard OFF (no -tags) in $1 (default /repo).
# Exit 0 iff all 37 baseline tests pass and none fails.
cd "$(dirname "${BASH_SOURCE[0]}")/.." && . ./env.sh
repo="${1:-/repo}"
out=$(cd "$repo" && "$GO" test -json -vet=off -count=1 -timeout 25m . ./set 2>&1)
pass=$(printf '%s\n' "$out" | grep -c '"Action":"pass","Package":"[^"]*","Test"')
fail=$(printf '%s\n' "$out" | grep -c '"Action":"fail"')
echo "baseline: pass=$pass fail=$fail"
if [ "$fail" != 0 ] || [ "$pass" -lt 37 ]; then printf '%s\n' "$out" | grep -E '"Action":"(fail|output)"' | grep -v '"Output":"(=== |--- PASS|PASS|ok)' | grep -E "FAIL|fail|_test.go" | cut -c1-300 | head -12; exit 1; fi
