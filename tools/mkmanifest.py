#!/usr/bin/env python3
"""Regenerates /verif/MANIFEST.json from the table below (single source of truth for the interface)."""
import json, os, subprocess
ROOT = os.path.dirname(os.path.dirname(os.path.abspath(__file__)))

# id -> (level, technique, level text, level note, design ref)
CHECKS = {
 "C17": ("exploration", "replay of the bootstrap chain stage by stage + differential monitor across front ends regenerated under each option combination + differential monitor across the shipped grammars' parsers, plus the shipped tests",
         "The six bootstrap generations are executed on a scratch copy and the result compared byte for byte with the checked-in peg.peg.go; front ends regenerated from peg.peg under four option sets are compiled into drivers and must agree with the checked-in one (accept/reject, tree, code, diagnostics) on thousands of valid, mutated and random grammar texts; shipped grammars generate under -strict, their four parsers agree on samples and mutations, and their own tests pass against fresh parsers.",
         "Held on the texts/inputs produced; -noast front ends are out of scope (assumption recorded).", "5/C17"),
 "C13": ("exploration", "crash/bounds monitor in child processes: hostile byte strings through generated parsers (reference model + in-parser bounds assertions) and through the shipped grammars generated at check time (tree rebuilt from tokens by slicing the rune sequence)",
         "Empty, NUL, every class of invalid UTF-8, non-BMP, U+10FFFF, very long and deeply (<=200) nested buffers are parsed in child processes whose death is attributed through a pre-call log; no panic, offsets within the rune sequence, laminar post-order tokens, verdict/tokens equal to the reference (generated grammars) or printed tree equal to the tree rebuilt from tokens (peg, calculator, C, Java, fexl, long grammars); thorough tier builds with -race/checkptr.",
         "Held on the inputs produced; nesting depth bounded at 200; Go is memory safe, so an out-of-range access shows as a panic.", "5/C13"),
 "C08": ("exploration", "process-boundary + compiler monitor: every generated file is compiled by the real Go compiler together with an API-use file and checked against go/format as a fixed point, under all eight option sets",
         "Grammars from all profiles plus a surface profile (imports, header comments, state, exotic characters, comments and '*/' in embedded Go code, terminal-free grammars, hundreds of rules; one >65535-rule-id grammar in the thorough tier) are generated with the real peg under the eight -inline/-switch/-noast combinations: exit 0, silent, compiles, gofmt fixed point.",
         "Held on the grammars produced; user code in the grammar is valid Go by construction; imports are used by the parser state.", "5/C08"),
 "C10": ("exploration", "three runtime monitors over grammar texts: behaviour of generated parsers under spelling variants (reference model), tree equality against an independent hand-written reader of the documented syntax, and rejection of mutated/random texts",
         "Spelling variants of every construct are run through the real front end, generator and compiler and compared with the reference interpreter of the intended AST; the rule tree the real front end builds (read through the tree package's exported methods) must equal, node by node, the tree of an independent reader; whenever that reader rejects a mutated or random text peg must reject with an error and never crash; a sample also goes through the CLI.",
         "Held on the texts produced; trusted: the independent reader (internal/pegsyntax), written from docs/peg-file-syntax.md and the language grammar in peg.peg read as a PEG; ASCII case folding.", "5/C10"),
 "C09": ("exploration", "Go race detector + determinism monitor across processes, driven by a build-tagged schedule-perturbation hook whose interleaving log measures the distinct interleavings observed",
         "Each (grammar, options, args) is generated repeatedly in separate processes under GOMAXPROCS 1/2/4/16 and seeded perturbation of the two analysis goroutines; exit, stderr and sha256(stdout) must be identical; the same under the race detector (hook without synchronisation); concurrent Compile calls on independent trees in one -race process must equal the sequential results with zero reports.",
         "Held on the schedules produced (counted in the evidence); races on schedules never produced are not excluded; no bit-for-bit replay (rr unavailable).", "5/C09"),
 "C15": ("exploration", "reference-model monitor on the CLI's diagnostics: planted grammars, stderr/exit observed, ground truth from an independent grammar analysis",
         "The real CLI is run with and without -strict on grammars with planted undefined names, unreachable rules/cycles, left-recursive cycles under every operator behind nullable/consuming prefixes, duplicate definitions, rule names that look like peg's own, a rule referenced exactly 2^8/2^16 times, and clean grammars; the sets of (kind, rule) parsed from stderr must equal gram's own analysis; exit codes, silence and complete output are checked; panics are violations.",
         "Held on the grammars produced; shapes where syntactic and semantic nullability coincide (DESIGN 6.3).", "5/C15"),
 "C18": ("fault_enumeration", "process-boundary monitor over a source x destination x option matrix plus single-fault enumeration with strace syscall injection (ground truth of fired faults from the strace log)",
         "Every cell of the matrix and every single injected fault (openat/read/write/close with ENOSPC, EIO, EACCES, EMFILE, ENOENT on the source and destination paths; all N for short sequences, sampled N for the thousands of destination writes, all N in the thorough tier) is executed against the real binary; status 0 must imply a destination byte-identical to the fault-free output, every failure must give non-zero status and a message.",
         "Single faults only; strace counts per thread so non-firing requests are treated as fault-free runs; -version/-h are not generation requests; a closed stdout is re-opened on /dev/null by the Go runtime and therefore not a failing destination.", "5/C18"),
 "C01": ("exploration", "reference-model monitor: generated parsers (real peg + Go compiler) vs an independent PEG interpreter on generated grammars x inputs x entry rules",
         "Verdict and consumed prefix of the real generated parser are compared with an executable PEG specification on thousands of (well-formed grammar, entry rule, input) executions covering every operator of the .peg language both succeeding and failing; memo on and off; grammar text printed with random spelling variants.",
         "Held on the executions produced. Trusted: the reference interpreter (internal/ref), gram's well-formedness analysis, the Go compiler. Inputs <= 64 runes.", "5/C01"),
 "C02": ("exploration", "differential + reference-model monitor across the four -inline/-switch combinations",
         "The four option combinations are generated for each choice-heavy grammar and run on first-set boundary inputs; verdict, prefix and the full token sequence must equal both the option-free parser and the reference interpreter; evidence counts grammars whose -switch output really contains a switch and rules really inlined.",
         "Held on the executions produced; -inline parsers entered through the first rule only; furthest-failure token not claimed invariant (DESIGN 6.2).", "5/C02"),
 "C03": ("exploration", "reference-model monitor + in-package probe reading token.begin/end; structural invariants on the token stream",
         "After every successful parse the probe dumps Tokens(); it must equal the reference's post-order record of the derivation and satisfy reference-free invariants (bounds, laminar post-order, last token = entry rule over the prefix); workloads force tokens to be written and abandoned (shared prefixes, failing last iterations, lookahead), Size 1/4 forces both paths of tokens.Add.",
         "Held on the executions produced; tokens after a failed parse are unspecified and not observed.", "5/C03"),
 "C04": ("exploration", "reference-model monitor on an action trace recorded by probe actions",
         "Every action is a probe recording (id, text, begin, end); Execute()'s trace must equal the reference's derivation-order trace; workloads put actions and captures in branches that fail, abandoned iterations and lookahead.",
         "Held on the executions produced (default, -inline, memo off).", "5/C04"),
 "C05": ("exploration", "reference-model monitor: AST() walked through up/next and all four printers captured, vs the reference derivation tree",
         "Tree shape and the exact printed text (Sprint/Write/Print/Pretty via a stdout pipe) are compared with the reference tree for unit chains, zero-width siblings, deep nesting and multi-byte input.",
         "Held on the executions produced; nesting depth bounded (60 levels x chain length).", "5/C05"),
 "C06": ("exploration", "differential monitor memo vs DisableMemoize + in-parser rule-entry observer (grammar-embedded predicate) that makes memo hits observable",
         "Same compiled parser, memo on/off: verdict, tokens, error token equal and equal to the reference; the observer log proves hits happened: with memo each (rule, offset) body is entered exactly once, in first-visit order; entry rules tried in turn on one instance compared attempt by attempt with and without memoisation; rule applications spanning 2^8 and 2^16 runes replayed from the memo table.",
         "Held on the executions produced; observer predicates are always true.", "5/C06"),
 "C07": ("exploration", "reference-model monitor on inline event traces of -noast parsers (probe actions, position probes via state changes)",
         "Verdict/prefix of the four -noast combinations vs the reference and the default parser; inline event list equals the reference's time-ordered list for -noast and -noast -inline; trace-internal + containment oracle for the -switch combinations; reused and re-initialised -noast instances; entry rules tried in turn on one -noast instance.",
         "Held on the executions produced; weaker (but sound) oracle for the inline trace under -switch, see DESIGN 5/C07.", "5/C07"),
 "C11": ("exploration", "reference-model monitor on rejected inputs: probe reads parseError.maxToken and Error()",
         "For every rejected input the error's dynamic type, its token (vs the reference's furthest token) and the exact message with independently recomputed line/column are checked, Pretty on/off, memo on/off, -inline exactly and -switch with the documented weakening; panics while formatting are caught.",
         "Held on the executions produced; line/column convention stated in the evidence assumptions.", "5/C11"),
 "C12": ("exploration", "history monitor: one long-lived instance vs a fresh instance per input, across U and Size instantiations",
         "Histories of 6-40 inputs (fail->success, long->short, repeats, empty, inputs of 254/255/256 runes, one of >65535 tokens) and histories of 260 Resets on one instance under 5 integer types (uint8..uint64, uint) x 3 sizes x memo on/off; every step must equal the fresh-instance observation (verdict, tokens, tree, print, trace, error token, message), and an error kept by the caller must still read the same after the whole history.",
         "Held on the histories produced; a step is run under U only when its input fits U (255 runes for uint8).", "5/C12"),
 "C14": ("exploration", "Go race detector + differential monitor (concurrent result == result alone) over stress batches",
         "Runner built with -race; 2/8/32 goroutines run fresh and long-lived instances of the same and of different parser types at once; every result must equal the sequential one and the detector must stay silent; a batch prints trees (also deeper than 64 levels) to the shared standard output while a few owners break their own instance next to the healthy ones; a child that stops using the CPU is reported as blocked; evidence reports how many calls really overlapped.",
         "Held on the schedules the Go scheduler produced here; the monitor adds no synchronisation between the goroutines.", "5/C14"),
 "C16": ("exploration", "reference-model monitor (bit-vector set) over bounded-exhaustive + random operation sequences on the real package",
         "Every observable of the real set package (Has on every point, Len, String, Copy, Union, Intersects, Complement, Equal, operand preservation, panics, non-termination) is compared with a bit-vector model after every operation; the sub-space universe 0..6 / <=3 insertions / all pairs of <=2-insertion sets is enumerated completely, the rest is random (incl. live sequences in which queries, copies, unions and complements are interleaved with further insertions on three shadowed sets, the top of the int32 rune range, and the 0x10FFFF/0x110000 neighbourhood peg itself uses and inverted ranges).",
         "Held on the executions produced; trusted: the 40-line bit-vector model in drivers/setdrv. Elements are non-negative runes.", "5/C16"),
}
NOT_YET = {}

def main():
    props = [json.loads(l)["id"] for l in open(os.path.join(ROOT, "properties.jsonl"))]
    hooks_commits = []
    hp = os.path.join(ROOT, "hooks_commits.txt")
    if os.path.exists(hp):
        hooks_commits = [l.split()[0] for l in open(hp) if l.strip()]
    checks = []
    for pid in props:
        if pid not in CHECKS:
            continue
        level, tech, text, note, ref = CHECKS[pid]
        checks.append({
            "property_id": pid,
            "quick_cmd": f"./check {pid} quick",
            "thorough_cmd": f"./check {pid} thorough",
            "evidence_file": f"/verif/evidence/{pid}.json",
            "replay_cmd_template": f"./check {pid} --replay {{path}}",
            "engine": "vcheck",
            "level_claimed": {"category": level, "text": text, "design_ref": "DESIGN.md section " + ref},
            "level_note": note,
            "technique": tech,
        })
    na = [{"property_id": p, "reason": NOT_YET.get(p, "monitor not built yet in this revision of /verif (work in progress; see DESIGN.md section 5 for the planned runtime monitor)")}
          for p in props if p not in CHECKS]
    m = {
        "version": 1,
        "setup_cmd": "./check setup",
        "hooks": {
            "guard": "verif",
            "enable": "go build -tags verif (every check builds /repo's working tree with -tags verif; see internal/harness)",
            "baseline_off_cmd": "/verif/tools/baseline.sh",
            "source_commits": hooks_commits,
            "add_only": True,
        },
        "engines": [
            {"name": "vcheck", "path": "/verif/cmd/vcheck", "serves_properties": [c["property_id"] for c in checks],
             "kind_free_text": "runtime monitors: generated workloads run through the real peg binary and the real generated parsers (built at check time from /repo's working tree), judged by reference models / invariant probes / race detector / fault injection"},
        ],
        "checks": checks,
        "notes": "All checks are runtime monitors over executions of the real code (family: runtime monitoring and sanitizers). Exit 0 = held on everything explored, 1 = VIOLATION line, 2 = inconclusive (infrastructure). VERIF_SEED selects the PRNG seed; VERIF_REPO (default /repo) the tree under test.",
        "not_applicable": na,
    }
    json.dump(m, open(os.path.join(ROOT, "MANIFEST.json"), "w"), indent=1)
    print("MANIFEST.json:", len(checks), "checks,", len(na), "not claimed")

main()
