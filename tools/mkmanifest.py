#!/usr/bin/env python3
"""Regenerates /verif/MANIFEST.json from the table below (single source of truth for the interface)."""
import json, os, subprocess
ROOT = os.path.dirname(os.path.dirname(os.path.abspath(__file__)))

# id -> (level, technique, level text, level note, design ref)
CHECKS = {
 "C16": ("exploration", "reference-model monitor (bit-vector set) over bounded-exhaustive + random operation sequences on the real package",
         "Every observable of the real set package (Has on every point, Len, String, Copy, Union, Intersects, Complement, Equal, operand preservation, panics, non-termination) is compared with a bit-vector model after every operation; the sub-space universe 0..6 / <=3 insertions / all pairs of <=2-insertion sets is enumerated completely, the rest is random (incl. the 0x10FFFF/0x110000 neighbourhood peg itself uses and inverted ranges).",
         "Held on the executions produced; trusted: the 40-line bit-vector model in drivers/setdrv. Elements are non-negative runes.", "5/C16"),
}
NOT_YET = {}

def main():
    props = [json.loads(l)["id"] for l in open(os.path.join(ROOT, "properties.jsonl"))]
    hooks_commits = []
    hp = os.path.join(ROOT, "hooks_commits.txt")
    if os.path.exists(hp):
        hooks_commits = [l.split()[0] for l in open(hp) if l.strip()]
    checks = []
    for pid in props:
        if pid not in CHECKS:
            continue
        level, tech, text, note, ref = CHECKS[pid]
        checks.append({
            "property_id": pid,
            "quick_cmd": f"./check {pid} quick",
            "thorough_cmd": f"./check {pid} thorough",
            "evidence_file": f"/verif/evidence/{pid}.json",
            "replay_cmd_template": f"./check {pid} --replay {{path}}",
            "engine": "vcheck",
            "level_claimed": {"category": level, "text": text, "design_ref": "DESIGN.md section " + ref},
            "level_note": note,
            "technique": tech,
        })
    na = [{"property_id": p, "reason": NOT_YET.get(p, "monitor not built yet in this revision of /verif (work in progress; see DESIGN.md section 5 for the planned runtime monitor)")}
          for p in props if p not in CHECKS]
    m = {
        "version": 1,
        "setup_cmd": "./check setup",
        "hooks": {
            "guard": "verif",
            "enable": "go build -tags verif (every check builds /repo's working tree with -tags verif; see internal/harness)",
            "baseline_off_cmd": "/verif/tools/baseline.sh",
            "source_commits": hooks_commits,
            "add_only": True,
        },
        "engines": [
            {"name": "vcheck", "path": "/verif/cmd/vcheck", "serves_properties": [c["property_id"] for c in checks],
             "kind_free_text": "runtime monitors: generated workloads run through the real peg binary and the real generated parsers (built at check time from /repo's working tree), judged by reference models / invariant probes / race detector / fault injection"},
        ],
        "checks": checks,
        "notes": "All checks are runtime monitors over executions of the real code (family: runtime monitoring and sanitizers). Exit 0 = held on everything explored, 1 = VIOLATION line, 2 = inconclusive (infrastructure). VERIF_SEED selects the PRNG seed; VERIF_REPO (default /repo) the tree under test.",
        "not_applicable": na,
    }
    json.dump(m, open(os.path.join(ROOT, "MANIFEST.json"), "w"), indent=1)
    print("MANIFEST.json:", len(checks), "checks,", len(na), "not claimed")

main()
