#!/usr/bin/env python3
"""rematrix.py [-j N] [name...]
Re-runs the stored seeded changes (/verif/seeded/<name>/patch.diff) against the CURRENT checks: for each, a scratch
worktree of /repo HEAD under /tmp/mutwork (falling back to the commit the change was written against), the patch
applied, peg.peg.go regenerated, the baseline suite run, then the quick tier of the change's own property check
with VERIF_REPO pointing at the patched tree. Results go to /verif/seeded/MATRIX.json (name -> base, baseline,
exit, violations, first message, seconds). Nothing is written to /repo; every worktree is removed."""
import json, os, shutil, subprocess, sys, time
from concurrent.futures import ThreadPoolExecutor
args = sys.argv[1:]
jobs = 3
if args[:1] == ["-j"]:
    jobs = int(args[1]); args = args[2:]
names = args or sorted(d for d in os.listdir("/verif/seeded") if os.path.exists(f"/verif/seeded/{d}/patch.diff"))
env = dict(os.environ, GOFLAGS="-mod=mod", GOPROXY="off")
def sh(cmd, cwd=None, timeout=3600, extra=None):
    e = dict(env); e.update(extra or {})
    try:
        p = subprocess.run(cmd, shell=True, cwd=cwd, env=e, capture_output=True, text=True, errors="replace", timeout=timeout)
    except subprocess.TimeoutExpired as x:
        return 124, "timeout"
    return p.returncode, (p.stdout + p.stderr)
def apply(work, patch):
    for cmd in (f"git apply {patch}", f"git apply --3way {patch}",
                f"git apply --exclude=peg.peg.go {patch}", f"git apply --3way --exclude=peg.peg.go {patch}"):
        sh("git checkout -q -- . && git clean -fdq", cwd=work)
        rc, out = sh(cmd, cwd=work)
        if rc == 0 and "with conflicts" not in out:
            return True
    return False
def one(name):
    meta = json.load(open(f"/verif/seeded/{name}/meta.json"))
    prop = meta["property"]
    patch = f"/verif/seeded/{name}/patch.diff"
    work = f"/tmp/mutwork/re-{name}"
    res = {"property": prop}
    for base in ("HEAD", meta.get("repo_head", "HEAD")):
        sh(f"git -C /repo worktree remove --force {work}"); shutil.rmtree(work, ignore_errors=True)
        rc, out = sh(f"git -C /repo worktree add -q --detach {work} {base}")
        if rc != 0:
            res["error"] = out[-300:]; continue
        if apply(work, patch):
            res["base"] = sh(f"git -C {work} rev-parse --short HEAD")[1].strip()
            break
    try:
        if "base" not in res:
            res["applies"] = False
            return name, res
        rc, out = sh(f"/verif/tools/regen.sh {work}", timeout=900)
        res["baseline_ok"] = rc == 0
        t0 = time.time()
        rc, out = sh(f"./check {prop} quick", cwd=SNAP, extra={"VERIF_REPO": work, "VERIF_OUT": "/tmp/mutwork/reout-" + name}, timeout=3000)
        lines = out.splitlines()
        viol = [l for l in lines if l.startswith("VIOLATION")]
        first = ""
        for i, l in enumerate(lines):
            if l.startswith("VIOLATION") and i + 1 < len(lines):
                first = lines[i + 1].strip()[:240]; break
        res.update(exit=rc, violations=len(viol), first=first, seconds=round(time.time() - t0, 1), caught=(rc == 1 and len(viol) > 0))
        return name, res
    finally:
        sh(f"git -C /repo worktree remove --force {work}"); shutil.rmtree(work, ignore_errors=True)
        shutil.rmtree("/tmp/mutwork/reout-" + name, ignore_errors=True)
        print(name, json.dumps(res), flush=True)
os.makedirs("/tmp/mutwork", exist_ok=True)
# the checks run from a snapshot of the COMMITTED /verif, so that editing /verif meanwhile cannot disturb them
SNAP = f"/tmp/mutwork/snap-{os.getpid()}"
shutil.rmtree(SNAP, ignore_errors=True); os.makedirs(SNAP)
rc, out = sh(f"git -C /verif archive HEAD | tar -x -C {SNAP} && cd {SNAP} && ./check setup")
assert rc == 0, out
import atexit
atexit.register(lambda: shutil.rmtree(SNAP, ignore_errors=True))
mpath = "/verif/seeded/MATRIX.json"
matrix = json.load(open(mpath)) if os.path.exists(mpath) else {}
with ThreadPoolExecutor(jobs) as ex:
    for name, res in ex.map(one, names):
        matrix[name] = res
        json.dump(dict(sorted(matrix.items())), open(mpath, "w"), indent=1)
missed = [n for n in names if not matrix[n].get("caught")]
print("run:", len(names), "caught:", len(names) - len(missed), "not caught:", missed)
