#!/bin/bash
# usage: tools/cover.sh <tier> <outdir> [Cxx...]
# Runs the given checks (default: all) with the code under test built with statement-coverage instrumentation and
# prints, per function of pointlander/peg, how much of it the workloads reached. Evidence is written to a scratch
# directory (VERIF_OUT), never to /verif/evidence. Not a verdict: a tool for finding code the workloads never run.
cd "$(dirname "${BASH_SOURCE[0]}")/.." && . ./env.sh
tier="$1"; out="$2"; shift 2
checks="${*:-C01 C02 C03 C04 C05 C06 C07 C08 C09 C10 C11 C12 C13 C14 C15 C16 C17 C18}"
mkdir -p "$out/cov" "$out/ev"
for p in $checks; do
  VERIF_COVERDIR="$out/cov" VERIF_OUT="$out/ev" ./check $p $tier > "$out/$p.log" 2>&1
  echo "$p rc=$? $(ls "$out/cov" | wc -l) counter files"
done
(cd "$VERIF_REPO" && "$GO" tool covdata textfmt -i="$out/cov" -o "$out/cover.txt" && "$GO" tool cover -func="$out/cover.txt" > "$out/func.txt")
tail -1 "$out/func.txt"
