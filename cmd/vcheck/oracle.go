package main

import (
	"fmt"
	"strconv"
	"strings"

	"verif/internal/corpus"
	"verif/internal/ref"
)

// mismatch kinds an AST-mode result can show against the reference evaluation.
type mismatch struct {
	kind   string
	detail string
}

// crashed: the parser panicked or killed its process.
func crashed(r *corpus.Res) *mismatch {
	if r.Fatal != "" {
		return &mismatch{"fatal", "generated parser killed the process: " + firstLine(r.Fatal)}
	}
	if r.Panic != "" {
		return &mismatch{"panic", "generated parser panicked: " + r.Panic}
	}
	return nil
}

func firstLine(s string) string {
	if i := strings.IndexByte(s, '\n'); i >= 0 {
		return s[:i]
	}
	return s
}

// tokenInvariants checks the structural claims of C03/C13 on a successful parse, independently of the reference:
// bounds, last token = entry rule over [0,end], laminar family in post-order.
func tokenInvariants(toks []corpus.Tk, entryRule string, nRunes int) string {
	if len(toks) == 0 {
		return "no tokens after a successful parse"
	}
	last := toks[len(toks)-1]
	if last.R != entryRule || last.B != 0 {
		return fmt.Sprintf("last token is %s, expected the entry rule %s starting at 0", last, entryRule)
	}
	type span struct{ b, e uint64 }
	var stack []span
	for _, t := range toks {
		if t.B > t.E || t.E > uint64(nRunes) {
			return fmt.Sprintf("token %s outside the input of %d runes", t, nRunes)
		}
		if t.E > last.E {
			return fmt.Sprintf("token %s lies beyond the entry token %s", t, last)
		}
		// post-order + laminar: the new token either contains a suffix of the open spans or starts at/after the
		// end of the previous span
		for len(stack) > 0 && stack[len(stack)-1].b >= t.B && stack[len(stack)-1].e <= t.E {
			stack = stack[:len(stack)-1]
		}
		if len(stack) > 0 {
			top := stack[len(stack)-1]
			if t.B < top.e { // overlaps an earlier span it does not contain
				return fmt.Sprintf("token %s overlaps an earlier token [%d,%d] without containing it (not a post-order of a tree)", t, top.b, top.e)
			}
		}
		stack = append(stack, span{t.B, t.E})
	}
	return ""
}

func traceString(tr []corpus.Ev) string {
	var sb strings.Builder
	for _, e := range tr {
		fmt.Fprintf(&sb, "{%d %q %d %d}", e.ID, e.Text, e.B, e.E)
	}
	return sb.String()
}

func refTraceString(tr []ref.Act) string {
	var sb strings.Builder
	for _, e := range tr {
		fmt.Fprintf(&sb, "{%d %q %d %d}", e.ID, e.Text, e.Begin, e.End)
	}
	return sb.String()
}

// enterLog renders the rule-entry observer events of a parser run ("rule@pos").
func enterLog(evs []corpus.Ev) []string {
	var out []string
	for _, e := range evs {
		if e.K == "enter" {
			out = append(out, strconv.Itoa(e.ID)+"@"+strconv.Itoa(e.B))
		}
	}
	return out
}

func refEnterLog(evs []ref.Event) []string {
	var out []string
	for _, e := range evs {
		if e.Kind == "enter" {
			out = append(out, strconv.Itoa(e.ID)+"@"+strconv.Itoa(e.Pos))
		}
	}
	return out
}

func noteLog(evs []corpus.Ev) []string {
	var out []string
	for _, e := range evs {
		if e.K == "note" {
			out = append(out, strconv.Itoa(e.ID)+"@"+strconv.Itoa(e.B))
		}
	}
	return out
}

func refNoteLog(evs []ref.Event) []string {
	var out []string
	for _, e := range evs {
		if e.Kind == "note" {
			out = append(out, strconv.Itoa(e.ID)+"@"+strconv.Itoa(e.Pos))
		}
	}
	return out
}

// firstOccurrences keeps the first occurrence of every element (what a memoising parser evaluates).
func firstOccurrences(l []string) []string {
	seen := map[string]bool{}
	var out []string
	for _, x := range l {
		if !seen[x] {
			seen[x] = true
			out = append(out, x)
		}
	}
	return out
}

// refMax renders the reference's furthest token the way the probe renders maxToken.
func refMax(it *ref.Interp) string {
	if it.Max.Rule == "" {
		return "Unknown[0,0]"
	}
	return it.Max.String()
}

// expectedMessage restates the documented shape of a parse error message for token (rule,b,e) on input in.
func expectedMessage(in []rune, rule string, b, e int, pretty bool) string {
	l1, c1 := ref.LineCol(in, b)
	l2, c2 := ref.LineCol(in, e)
	if b > len(in) {
		b = len(in)
	}
	if e > len(in) {
		e = len(in)
	}
	r := rule
	if pretty {
		r = "\x1B[34m" + rule + "\x1B[m"
	}
	return fmt.Sprintf("\nparse error near %s (line %d symbol %d - line %d symbol %d):\n%s\n", r, l1, c1, l2, c2, strconv.Quote(string(in[b:e])))
}
