package main

import (
	"bytes"
	"encoding/json"
	"os/exec"
	"strconv"
)

// driverOut is the JSON summary every self-contained driver prints.
type driverOut struct {
	Evals      int            `json:"evals"`
	Nontrivial int            `json:"nontrivial"`
	Counters   map[string]int `json:"counters"`
	Samples    []any          `json:"samples"`
	Violations []struct {
		Key     string `json:"key"`
		Summary string `json:"summary"`
		Witness any    `json:"witness"`
	} `json:"violations"`
	Exhaustive bool `json:"exhaustive"`
}

func init() { register("C16", "exploration", c16) }

func c16(c *ctx) {
	bin, err := c.env.BuildDriver("setdrv", false, nil, "verif")
	if err != nil {
		die("%v", err)
	}
	args := []string{c.env.Tier, strconv.FormatInt(c.env.Seed, 10)}
	if c.replay != "" {
		args = append(args, "--replay", c.replay)
	}
	cmd := exec.Command(bin, args...)
	var so, se bytes.Buffer
	cmd.Stdout, cmd.Stderr = &so, &se
	if err := cmd.Run(); err != nil {
		die("setdrv died: %v\n%s", err, se.String())
	}
	var out driverOut
	if err := json.Unmarshal(so.Bytes(), &out); err != nil {
		die("setdrv output unreadable: %v", err)
	}
	c.run.Eval(out.Evals)
	c.run.NontrivialN(out.Nontrivial)
	for k, v := range out.Counters {
		c.run.Count(k, v)
	}
	for _, s := range out.Samples {
		c.run.Sample(s, 10)
	}
	for _, v := range out.Violations {
		c.run.Violate(v.Key, v.Summary, v.Witness)
	}
	c.run.Rule = "cases: (1) every sequence of <=3 AddRange(b,e), 0<=b<=e<=6, and every ordered pair of sets built from <=2 such insertions (enumerated completely); " +
		"(2) random sequences of <=12 insertions over small universes, shifted universes and the neighbourhood of 0x10FFFF/0x110000 (peg's own use), with Complement limits at, inside and beyond the universe; " +
		"(3) sequences containing inverted ranges (b>e, mathematically empty); (4) live sequences of 8-47 operations on three sets at once — AddRange/Add, single Has queries aimed at interval ends and their neighbours, Len, String, Copy, Union, Complement, Intersects, Equal in random order, every step compared with the model as it happens and all sets re-read at the end, so that observations happen BETWEEN mutations and results are mutated further. (5) sets among the 41 largest runes (rune is int32: math.MaxInt32 is a value every operation accepts), observed in full, their complement within [0, MaxInt32] observed through Len and that window, inserted into and read again. Every one-shot case compares Has on every point of the universe and a margin, Len, String, Copy (+aliasing), Complement, Union (both orders), Intersects (both orders), Equal (both orders) and re-reads operands, against a bit-vector model. " +
		"distinct_nontrivial = distinct insertion sequences with >=2 insertions plus distinct ordered pairs of two non-empty sets plus distinct live sequences run to their end."
	c.run.Extra["exhaustive_subspace"] = "universe 0..6: all sequences of <=3 insertions; all ordered pairs of sets from <=2 insertions"
	c.run.Extra["exhaustive"] = false
	c.run.Assume("elements are non-negative runes (code points 0..0x110000, peg's own use, and the top of the int32 range); negative values are outside the domain; Complement(limit) is compared with {x in [0,limit] : x not in s}")
}
