package main

import (
	"bufio"
	"bytes"
	"encoding/json"
	"fmt"
	"os"
	"os/exec"
	"path/filepath"
	"strconv"
	"strings"
	"time"
	"verif/internal/harness"
)

type feReq struct {
	ID      int
	Text    string
	Inline  bool     `json:",omitempty"`
	Switch  bool     `json:",omitempty"`
	NoAST   bool     `json:",omitempty"`
	Strict  bool     `json:",omitempty"`
	Args    []string `json:",omitempty"`
	Compile bool     `json:",omitempty"`
	Code    bool     `json:",omitempty"`
	Dump    bool     `json:",omitempty"`
	Twice   bool     `json:",omitempty"`
	Conc    []feReq  `json:",omitempty"`
	Gor     int      `json:",omitempty"`
	Reps    int      `json:",omitempty"`
}

type feRes struct {
	ID         int
	Accepted   bool
	ParseErr   string
	Panic      string
	Tree       string
	TreeSHA    string
	CodeSHA    string
	Code       string
	CompileErr string
	Repeat     string
	Conc       []map[string]int
	Fatal      string // the driver process died on this request
	Lost       bool
}

type frontEnd struct {
	bin    string
	dir    string
	race   bool
	Stderr []string // stderr of every child (race reports live here)
	n      int
	c      *ctx
	// ExternalKills: driver processes killed by a SIGKILL this check did not send (OOM killer under other workloads):
	// the request is lost and the run inconclusive, never a violation
	ExternalKills int
}

// buildFront compiles drivers/frontdrv together with a copy of the given peg.peg.go (the front end under test).
// driverCPUSeconds: processor time one front-end driver process may use for one list of requests. A list can hold
// thousands of Compile calls (C09 thorough: 16 goroutines x 6 repetitions x 100 grammars, some of them hundreds of
// rules, under the race detector); 900 s were too few for that once the large grammars came in (a false alarm).
const driverCPUSeconds = 7200

func buildFront(c *ctx, pegGo string, race bool, tag string) *frontEnd {
	// BuildDriver names the directory after the driver; use a private copy per tag
	src := filepath.Join(c.env.Root, "drivers", "frontdrv")
	dst := filepath.Join(c.env.Scratch, "fe-"+tag)
	os.MkdirAll(dst, 0o755)
	b, err := os.ReadFile(filepath.Join(src, "main.go"))
	if err != nil {
		die("%v", err)
	}
	os.WriteFile(filepath.Join(dst, "main.go"), b, 0o644)
	pb, err := os.ReadFile(pegGo)
	if err != nil {
		die("front end source: %v", err)
	}
	os.WriteFile(filepath.Join(dst, "peg.peg.go"), pb, 0o644)
	gomod := fmt.Sprintf("module drv\n\ngo 1.25\n\nrequire github.com/pointlander/peg v0.0.0\n\nreplace github.com/pointlander/peg => %s\n", c.env.Repo)
	os.WriteFile(filepath.Join(dst, "go.mod"), []byte(gomod), 0o644)
	args := []string{"build", "-tags", "verif"}
	if race {
		args = append(args, "-race")
	}
	args = append(args, "-o", "frontdrv.bin", ".")
	if out, err := c.env.RunGo(dst, args...); err != nil {
		die("building front-end driver (%s) failed: %v\n%s", tag, err, out)
	}
	return &frontEnd{bin: filepath.Join(dst, "frontdrv.bin"), dir: dst, race: race, c: c}
}

// run sends the requests to one driver process, restarting it after the request on which it died.
func (f *frontEnd) run(reqs []feReq) []feRes {
	res := make([]feRes, len(reqs))
	for i := range res {
		res[i].Lost = true
		reqs[i].ID = i
	}
	remaining := make([]int, len(reqs))
	for i := range remaining {
		remaining[i] = i
	}
	for attempt := 0; len(remaining) > 0 && attempt < 200; attempt++ {
		f.n++
		prog := filepath.Join(f.dir, fmt.Sprintf("prog-%d", f.n))
		var in bytes.Buffer
		for _, i := range remaining {
			b, _ := json.Marshal(reqs[i])
			in.Write(b)
			in.WriteByte('\n')
		}
		cmd := exec.Command("bash", "-c", fmt.Sprintf("ulimit -t %d; exec %s %s", driverCPUSeconds, f.bin, prog))
		cmd.Env = append(os.Environ(), "GORACE=atexit_sleep_ms=0 halt_on_error=0 exitcode=0", "GOTRACEBACK=single")
		cmd.Stdin = &in
		var so, se bytes.Buffer
		cmd.Stdout, cmd.Stderr = &so, &se
		memMB := harness.DefaultMemMB
		if f.race {
			memMB *= 3
		}
		guard, err := harness.RunGuarded(cmd, memMB, 1800*time.Second)
		if guard.MemKilled {
			se.WriteString(fmt.Sprintf("\nverif: the driver exceeded the memory limit of %d MB and was killed (runaway allocation?)\n", memMB))
		}
		if se.Len() > 0 {
			f.Stderr = append(f.Stderr, se.String())
		}
		done := map[int]bool{}
		sc := bufio.NewScanner(&so)
		sc.Buffer(make([]byte, 1<<20), 1<<30)
		for sc.Scan() {
			var r feRes
			if json.Unmarshal(sc.Bytes(), &r) == nil && r.ID >= 0 && r.ID < len(res) {
				res[r.ID] = r
				done[r.ID] = true
			}
		}
		last := -1
		if b, e := os.ReadFile(prog); e == nil {
			fl := strings.Fields(string(b))
			if len(fl) > 0 {
				last, _ = strconv.Atoi(fl[len(fl)-1])
			}
		}
		os.Remove(prog)
		if err == nil {
			break
		}
		if last < 0 || done[last] {
			die("front-end driver died outside any request: %v\n%s", err, tail(se.String(), 2000))
		}
		if guard.ExternalKill(driverCPUSeconds*time.Second) || guard.WallKilled {
			f.ExternalKills++
			res[last] = feRes{ID: last, Lost: true}
			if f.c != nil {
				f.c.run.Incon("a front-end driver process was killed from outside (SIGKILL not sent by this check: OOM killer under other workloads?) or stopped by the wall-clock watchdog")
			}
		} else {
			res[last] = feRes{ID: last, Fatal: fmt.Sprintf("driver process died (%v): %s", err, tail(se.String(), 1500))}
		}
		done[last] = true
		var rest []int
		for _, i := range remaining {
			if !done[i] {
				rest = append(rest, i)
			}
		}
		remaining = rest
	}
	return res
}

func tail(s string, n int) string {
	if len(s) > n {
		return s[len(s)-n:]
	}
	return s
}

func (f *frontEnd) raceReports() []string {
	var out []string
	for _, s := range f.Stderr {
		if strings.Contains(s, "WARNING: DATA RACE") {
			out = append(out, s)
		}
	}
	return out
}
