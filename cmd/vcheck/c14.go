package main

import (
	"encoding/json"
	"fmt"
	"math/rand"
	"os"
	"sort"
	"strings"

	"verif/internal/corpus"
	"verif/internal/gram"
	"verif/internal/ref"
	"verif/internal/report"
)

func init() { register("C14", "exploration", c14) }

func c14(c *ctx) {
	n := tierN(c, 48, 300)
	reps := tierN(c, 12, 60)
	r := rand.New(rand.NewSource(c.env.Seed))
	peg, err := c.env.BuildPeg(false)
	if err != nil {
		die("%v", err)
	}
	cp := corpus.New(c.env, peg, true, "c14")
	defer cp.Remove()
	type pc struct {
		cs   *gcase
		ins  []string
		long string
	}
	var pcs []*pc
	variantOf := map[int]variant{}
	for i := 0; i < n; i++ {
		alpha := []rune("abc\né😀")
		g := gram.Backtracky(r, alpha)
		var deep []string
		if i < 2 {
			// two parser types whose trees nest deeper than 64 levels: anything the printers share between instances
			// and size by depth is met by the batch that prints to the shared standard output
			g, deep = gram.Nesting(r)
			sort.Slice(deep, func(a, b int) bool { return len(deep[a]) > len(deep[b]) })
		} else if i%2 == 0 {
			gram.Finish(g, &gram.Profile{EnterProbes: true})
		}
		// a third of the parser types is generated with -noast (inline actions reading the captured text)
		v := vPlain
		cs := &gcase{id: i, g: g}
		if i%3 == 2 {
			v = vNoast
			cs.inline = true
		}
		variantOf[i] = v
		pkg := pkgName(i, v)
		cs.text = gram.PrintGrammar(g, cs.printOpts(pkg, nil))
		cp.Add(&corpus.Job{Pkg: pkg, Text: cs.text, Opts: v.opts, NoAST: v.noast, RuleNames: ruleNames(g), HasActions: g.Count(gram.KAction) > 0})
		ins := tractable(g, "R0", gram.Inputs(r, g, "R0", 6, alpha))
		if len(deep) > 0 {
			// nesting a little beyond 64 levels is what is wanted here; the deepest inputs of the generator (hundreds
			// of levels) cost memory quadratic in the depth with memoisation, times 32 goroutines, times the race
			// detector's shadow memory — a thorough run went over the 9 GB cap of a child with them (a false alarm)
			var pick []string
			for _, in := range deep {
				it := ref.New(g, in)
				it.Limit = 400000
				if ok, _ := it.Parse("R0"); ok && !it.Over && it.MaxDepth >= 70 && it.MaxDepth <= 150 && len(pick) < 4 {
					pick = append(pick, in)
					c.run.Max("deepest_tree_printed_concurrently_levels", it.MaxDepth)
				}
			}
			if len(pick) > 0 {
				ins = pick
			}
		}
		// one long accepted input (the matched prefix is longer than 64 runes) for the owners that break their own
		// instance below: only a tree that reaches beyond what an empty text can be sliced to makes the printer panic
		long := ""
		if !v.noast {
			for try := 0; try < 40 && long == ""; try++ {
				var l []rune
				for k := 0; k <= try%8; k++ {
					l = append(l, gram.Derive(r, g, "R0", alpha)...)
				}
				if len(l) < 70 || len(l) > 400 {
					continue
				}
				it := ref.New(g, string(l))
				it.Limit = 400000
				if ok, end := it.Parse("R0"); ok && !it.Over && end >= 70 && it.MaxDepth < 200 {
					long = string(l)
				}
			}
		}
		pcs = append(pcs, &pc{cs, ins, long})
	}
	if err := cp.Build(); err != nil {
		die("corpus build: %v", err)
	}
	c.run.Count("parser_types", len(cp.Jobs)-cp.CompFailed-cp.GenFailed)
	// 1. sequential reference results
	var seq []corpus.Req
	type sk struct {
		p    *pc
		k    int
		memo bool
		hist bool
	}
	var sks []sk
	for _, p := range pcs {
		pkg := pkgName(p.cs.id, variantOf[p.cs.id])
		for k, in := range p.ins {
			for _, memo := range []bool{true, false} {
				// Size 4 with option values shared by all instances of the type: what "var opts = ..." at package level does
				seq = append(seq, corpus.Req{Pkg: pkg, Entry: -1, In: []byte(in), Memo: memo, Pretty: k%2 == 0, Size: 4 * (k % 2), Shared: k%3 != 0})
				sks = append(sks, sk{p, k, memo, false})
			}
		}
		var hb [][]byte
		for _, in := range p.ins {
			hb = append(hb, []byte(in))
		}
		seq = append(seq, corpus.Req{Pkg: pkg, Mode: "history", Entry: -1, Hist: hb, Memo: true, Size: 64, Shared: true})
		sks = append(sks, sk{p, 0, true, true})
	}
	// sequential runs use one worker so that nothing else runs in that process
	seqRes, err := cp.Run(seq, corpus.RunOpts{Workers: 4, CPUSeconds: 600})
	if err != nil {
		die("sequential run: %v", err)
	}
	want := map[string]string{} // sub-request identity -> sequential observable
	ident := func(q corpus.Req) string {
		b, _ := json.Marshal(q.Hist)
		return fmt.Sprintf("%s|%s|%q|%v|%v|%d|%v|%s|%v", q.Pkg, q.Mode, q.In, q.Memo, q.Pretty, q.Size, q.Shared, b, q.Misuse)
	}
	fullKey := func(r *corpus.Res) string {
		if r.Hist != nil {
			var sb strings.Builder
			for i := range r.Hist {
				sb.WriteString(resKey(&r.Hist[i]) + fmt.Sprint(enterLog(r.Hist[i].Events)) + ";")
			}
			return sb.String() + fmt.Sprintf(" late=%q", r.LateErr)
		}
		return resKey(r) + fmt.Sprint(enterLog(r.Events)) + r.Misuse
	}
	for i, q := range seq {
		if !seqRes[i].Lost {
			want[ident(q)] = fullKey(&seqRes[i])
			c.run.Eval(1)
		}
	}
	// 2. concurrent batches
	var conc []corpus.Req
	sub := func(q corpus.Req) corpus.Req { q.Seq = 0; return q }
	// (a) one parser type, many goroutines, same and different inputs, fresh and long-lived instances
	for i, p := range pcs {
		var subs []corpus.Req
		for j, q := range seq {
			if sks[j].p == p {
				subs = append(subs, sub(q))
			}
		}
		gor := []int{2, 8, 32}[i%3]
		conc = append(conc, corpus.Req{Mode: "conc", Conc: subs, Gor: gor, Reps: reps})
	}
	// (b) different parser types interleaved
	for b := 0; b+8 <= len(pcs); b += 8 {
		var subs []corpus.Req
		for j, q := range seq {
			if sks[j].p.cs.id >= pcs[b].cs.id && sks[j].p.cs.id < pcs[b].cs.id+8 && !sks[j].hist && sks[j].k < 3 {
				subs = append(subs, sub(q))
			}
		}
		conc = append(conc, corpus.Req{Mode: "conc", Conc: subs, Gor: 16, Reps: max(1, reps/4)})
	}
	// (c) instances printing their syntax trees to the process's standard output at the same time: the bytes that arrive
	// must be exactly the bytes of the individual outputs (compared as a byte histogram), no panic, no race
	printBatch := len(conc)
	wantHist := map[string]int{}
	{
		var subs []corpus.Req
		for j, q := range seq {
			if !sks[j].hist && !variantOf[sks[j].p.cs.id].noast && seqRes[j].OK && sks[j].memo && len(subs) < 24 {
				q2 := sub(q)
				q2.PrintRaw = true
				subs = append(subs, q2)
			}
		}
		// the expected output of one call = its sequential SprintSyntaxTree text (PrintSyntaxTree prints the same, coloured if Pretty)
		for _, q := range subs {
			one := corpus.Req{Pkg: q.Pkg, Entry: -1, In: q.In, Memo: q.Memo, Pretty: q.Pretty, Size: q.Size, Stdout: true}
			r1, err := cp.Run([]corpus.Req{one}, corpus.RunOpts{Workers: 1, CPUSeconds: 300})
			if err != nil || r1[0].Lost {
				continue
			}
			text := r1[0].Stdout
			if q.Pretty {
				text = r1[0].PStdout
				if !q.Pretty {
					text = r1[0].Stdout
				}
			}
			// Stdout was captured with p.Pretty as initialised, PStdout with the flag flipped
			text = r1[0].Stdout
			for _, b := range []byte(text) {
				wantHist[fmt.Sprint(b)] += 8 * 6 // Gor * Reps below
			}
		}
		// faulty neighbours: a few owners break their own instance after the parse (Buffer replaced by "" without
		// Reset, stale tree printed, panic recovered). Alone, such an owner gets its panic before a single byte is
		// printed; next to it every healthy instance must still print all of its bytes and return
		nm := 0
		for _, p := range pcs {
			if p.long == "" || nm >= 6 {
				continue
			}
			q3 := corpus.Req{Pkg: pkgName(p.cs.id, variantOf[p.cs.id]), Entry: -1, In: []byte(p.long), Memo: true, Misuse: true}
			r3, err := cp.Run([]corpus.Req{q3}, corpus.RunOpts{Workers: 1, CPUSeconds: 300})
			if err != nil || r3[0].Lost {
				continue
			}
			c.run.Count("misuse_alone_"+r3[0].Misuse, 1)
			if r3[0].Misuse != "panicked" {
				continue // (the stale tree happened to fit: nothing to learn from this owner)
			}
			nm++
			want[ident(q3)] = fullKey(&r3[0])
			subs = append(subs, q3)
			c.run.Count("owners_breaking_their_own_instance_next_to_printing_ones", 1)
		}
		if os.Getenv("VERIF_DEBUG") != "" {
			// diagnostic: every sub-request of the printing batch alone, one goroutine, one repetition
			for k, q := range subs {
				rr, err := cp.Run([]corpus.Req{{Mode: "conc", Conc: []corpus.Req{q}, Gor: 1, Reps: 1, Print: true}}, corpus.RunOpts{Workers: 1, CPUSeconds: 300})
				n := 0
				if err == nil {
					for _, v := range rr[0].StdoutHist {
						n += v
					}
				}
				fmt.Fprintf(os.Stderr, "DEBUG sub %d pkg=%s misuse=%v pretty=%v in=%d bytes: printed %d bytes alone\n", k, q.Pkg, q.Misuse, q.Pretty, len(q.In), n)
			}
			for _, set := range [][]corpus.Req{subs, subs[:24], subs[24:], append(append([]corpus.Req{}, subs[24:]...), subs[:24]...)} {
				rr, err := cp.Run([]corpus.Req{{Mode: "conc", Conc: set, Gor: 1, Reps: 1, Print: true}}, corpus.RunOpts{Workers: 1, CPUSeconds: 300})
				n := 0
				if err == nil {
					for _, v := range rr[0].StdoutHist {
						n += v
					}
				}
				fmt.Fprintf(os.Stderr, "DEBUG %d subs in one process, one goroutine: %d bytes\n", len(set), n)
			}
		}
		if len(subs) > 0 {
			conc = append(conc, corpus.Req{Mode: "conc", Conc: subs, Gor: 8, Reps: 6, Print: true})
		}
	}
	concRes, err := cp.Run(conc, corpus.RunOpts{Workers: 4, CPUSeconds: 3000, WallSeconds: 3000})
	if err != nil {
		die("concurrent run: %v", err)
	}
	if cp.WatchdogHits > 0 {
		c.run.Incon(fmt.Sprintf("%d child processes were stopped by the wall-clock watchdog or killed from outside (not by this check's limits)", cp.WatchdogHits))
	}
	c.run.Max("peak_child_resident_mb", cp.PeakMB)
	for i, q := range conc {
		res := concRes[i]
		if res.Lost {
			c.run.Incon("a concurrent batch has no result")
			continue
		}
		if res.Fatal != "" {
			c.run.Violate("fatal:"+report.Hash(fmt.Sprint(i)), "process died while instances ran concurrently: "+firstLine(res.Fatal), map[string]any{"batch": i, "stderr": res.Fatal})
			continue
		}
		if i == printBatch && q.Print {
			c.run.Count("concurrent_print_calls", res.Calls)
			if fmt.Sprint(res.StdoutHist) != fmt.Sprint(wantHist) {
				nb, nw := 0, 0
				for _, v := range res.StdoutHist {
					nb += v
				}
				for _, v := range wantHist {
					nw += v
				}
				c.run.Violate("print-concurrent", fmt.Sprintf("instances printing their syntax trees to standard output concurrently: %d bytes arrived, %d expected (or the byte histogram differs)", nb, nw),
					map[string]any{"goroutines": q.Gor, "repetitions": q.Reps, "bytes_arrived": nb, "bytes_expected": nw})
			}
		}
		c.run.Count("concurrent_calls", res.Calls)
		c.run.Count("calls_overlapping_another_goroutine", res.Overlap)
		c.run.Eval(res.Calls)
		c.run.Count("concurrent_batches", 1)
		for k, m := range res.Results {
			id := ident(q.Conc[k])
			for js, cnt := range m {
				var rr corpus.Res
				if err := json.Unmarshal([]byte(js), &rr); err != nil {
					c.run.Incon("unreadable concurrent result")
					continue
				}
				if got := fullKey(&rr); got != want[id] {
					c.run.Violate("diverge:"+report.Hash(id), fmt.Sprintf("an instance running concurrently with %d goroutines returned something else than when run alone (%d times)", q.Gor, cnt),
						map[string]any{"package": q.Conc[k].Pkg, "grammar": cp.Job(q.Conc[k].Pkg).Text, "input": string(q.Conc[k].In), "mode": q.Conc[k].Mode, "goroutines": q.Gor, "alone": want[id], "concurrent": got})
				}
			}
			if res.Overlap > 0 {
				c.run.Nontrivial(report.Hash(id, fmt.Sprint(q.Gor)))
			}
		}
		if i == 0 {
			c.run.Sample(map[string]any{"grammar": cp.Job(q.Conc[0].Pkg).Text, "goroutines": q.Gor, "repetitions": q.Reps, "sub_requests": len(q.Conc), "calls": res.Calls, "calls_overlapping": res.Overlap}, 2)
		}
	}
	seen := map[string]bool{}
	for _, rr := range cp.RaceReports {
		k := dedupeRace(rr)
		if seen[k] {
			continue
		}
		seen[k] = true
		c.run.Violate("race:"+report.Hash(k), "the race detector reported a data race while independent parser instances ran concurrently", map[string]any{"report": rr})
	}
	c.run.Count("race_reports", len(seen))
	c.run.Extra["race_detector"] = "runner built with -race (GORACE=halt_on_error=0); reports are read from the child's stderr"
	requireCov(c, "concurrent_calls", "calls_overlapping_another_goroutine", "concurrent_batches", "concurrent_print_calls", "owners_breaking_their_own_instance_next_to_printing_ones")
	// an absolute floor, not a fraction: how many calls overlap depends on the machine's load, the verdict must not
	if c.run.Counters["calls_overlapping_another_goroutine"] < 2000 {
		c.run.Incon("fewer than 2000 concurrent calls actually overlapped a call of another goroutine")
	}
	c.run.Rule = "cases: parser types generated from shared-prefix grammars (captures, actions, memo revisits, half with rule-entry observers; a third generated with -noast, whose inline actions read the captured text); instances are initialised with fresh option values or with option values shared by all instances of the type (Size 4/64, DisableMemoize, Pretty); each (parser, input, memo on/off, Pretty on/off) and a long-lived Reset history are first run alone; then the same requests are run from 2, 8 or 32 goroutines at once (same type with same and different inputs; 8 different types interleaved), each goroutine on its own instances, Init/Parse/Execute/AST/SprintSyntaxTree/Error, under the race detector. The goroutines share nothing with the monitor while running (results merged after join; overlap computed afterwards from monotonic timestamps). " +
		"A last batch lets 8 goroutines call PrintSyntaxTree() on the shared standard output at once and compares the byte histogram of what arrived with the sum of the individual outputs; in the same batch a few owners break their own instance (Buffer replaced by the empty string without Reset, stale tree printed, panic recovered — alone this panics before a byte is printed): the healthy instances next to them must still print everything and return. Oracle: every concurrent result equals the result alone (verdict, tokens, tree, printed tree, trace, observer log, error token, message); zero race reports. " +
		"distinct_nontrivial = distinct (parser, input, config, goroutine count) executed in a batch in which calls of different goroutines overlapped in time."
	c.run.Assume("schedules are those the Go scheduler produced on this machine (GOMAXPROCS = all cores) with Gosched perturbation; not replayable bit for bit")
}
