package main

import (
	"encoding/json"
	"fmt"
	"os"
	"path/filepath"
	"regexp"
	"strconv"
	"strings"

	"verif/internal/gram"
	"verif/internal/pegsyntax"
)

// fromText converts a grammar text (as printed into witnesses) back into the gram AST, using the independent
// reader. Probe predicates/actions written by this framework are recognised by their call text.
func fromText(text string) (*gram.Grammar, error) {
	f, err := pegsyntax.Parse(text)
	if err != nil {
		return nil, err
	}
	g := &gram.Grammar{}
	var conv func(n *pegsyntax.Node) (*gram.Expr, error)
	kids := func(n *pegsyntax.Node) ([]*gram.Expr, error) {
		var out []*gram.Expr
		for _, k := range n.Kids {
			e, err := conv(k)
			if err != nil {
				return nil, err
			}
			out = append(out, e)
		}
		return out, nil
	}
	un := map[string]gram.Kind{"PeekFor": gram.KAnd, "PeekNot": gram.KNot, "Query": gram.KQuery, "Star": gram.KStar, "Plus": gram.KPlus, "Push": gram.KCapture}
	rePFn := regexp.MustCompile(`^\s*p\.P\((\d+), int\(position\)\)\s*$`)
	reEnter := regexp.MustCompile(`^\s*p\.enter\((\d+), int\(position\), int\(tokenIndex\)\)\s*$`)
	conv = func(n *pegsyntax.Node) (*gram.Expr, error) {
		switch n.T {
		case "Name":
			return gram.Ref(n.S), nil
		case "Dot":
			return gram.Dot(), nil
		case "Nil":
			return gram.Nil(), nil
		case "Character":
			return &gram.Expr{K: gram.KLit, Text: []rune(n.S)}, nil
		case "Range":
			lo, hi := []rune(n.Kids[0].S), []rune(n.Kids[1].S)
			return &gram.Expr{K: gram.KClass, Items: []gram.Item{{Lo: lo[0], Hi: hi[0]}}}, nil
		case "Sequence", "Alternate":
			ks, err := kids(n)
			if err != nil {
				return nil, err
			}
			k := gram.KSeq
			if n.T == "Alternate" {
				k = gram.KAlt
			}
			return &gram.Expr{K: k, Kids: ks}, nil
		case "Action":
			return gram.Act(), nil
		case "StateChange":
			return gram.State(), nil
		case "Predicate":
			s := strings.TrimSpace(n.S)
			// spelling variants of the printer: a neutral operand around the predicate
			s = strings.TrimPrefix(strings.TrimPrefix(s, "false || "), "true && ")
			s = strings.TrimSuffix(strings.TrimSuffix(s, " || false"), " && true")
			switch {
			case s == "true":
				return gram.Pred(gram.PTrue, 0), nil
			case s == "false":
				return gram.Pred(gram.PFalse, 0), nil
			case strings.HasPrefix(s, "p.chk("):
				return gram.Pred(gram.PChk, 0), nil
			}
			if m := rePFn.FindStringSubmatch(s); m != nil {
				k, _ := strconv.Atoi(m[1])
				return gram.Pred(gram.PFn, k), nil
			}
			if m := reEnter.FindStringSubmatch(s); m != nil {
				k, _ := strconv.Atoi(m[1])
				return gram.Pred(gram.PEnter, k), nil
			}
			return nil, fmt.Errorf("predicate %q has no reference semantics", s)
		}
		if k, ok := un[n.T]; ok {
			ks, err := kids(n)
			if err != nil {
				return nil, err
			}
			return gram.Un(k, ks[0]), nil
		}
		return nil, fmt.Errorf("node %s cannot be converted", n.T)
	}
	for _, r := range f.Rules {
		e, err := conv(r.Kids[0])
		if err != nil {
			return nil, err
		}
		g.Rules = append(g.Rules, &gram.Rule{Name: r.S, E: e})
	}
	g.Number()
	return g, nil
}

// replayCase loads the (grammar, entry, input) of a recorded witness. The grammar text of the witness is used
// verbatim for the real parser (only the package clause is renamed); the reference evaluates the converted AST.
func replayCase(c *ctx) *gcase {
	b, err := os.ReadFile(c.replay)
	if err != nil {
		die("replay file: %v", err)
	}
	var f struct {
		Witness map[string]any `json:"witness"`
	}
	if err := json.Unmarshal(b, &f); err != nil {
		die("replay file: %v", err)
	}
	text, _ := f.Witness["grammar"].(string)
	if text == "" {
		die("this witness has no grammar text; it cannot be replayed by this check")
	}
	g, err := fromText(text)
	if err != nil {
		die("witness grammar cannot be read back: %v", err)
	}
	cs := &gcase{id: 0, g: g, rawText: text, inline: strings.Contains(text, "p.actI(") || strings.Contains(text, "p.actN(")}
	rule := -1
	if v, ok := f.Witness["entry_index"].(float64); ok {
		rule = int(v)
	}
	in, _ := f.Witness["input"].(string)
	if rs, ok := f.Witness["input_runes"].(string); ok {
		// the input was also recorded rune by rune (JSON cannot carry invalid UTF-8)
		_ = rs
	}
	if hx, ok := f.Witness["input_hex"].(string); ok {
		if raw, err := hexDecode(hx); err == nil {
			in = string(raw)
		}
	}
	cs.entries = []entry{{rule, in}}
	return cs
}

func hexDecode(s string) ([]byte, error) {
	out := make([]byte, 0, len(s)/2)
	for i := 0; i+1 < len(s); i += 2 {
		v, err := strconv.ParseUint(s[i:i+2], 16, 8)
		if err != nil {
			return nil, err
		}
		out = append(out, byte(v))
	}
	return out, nil
}

// regressionCases loads /verif/regressions/<property>/*.json: each file has the witness format
// {"witness": {"grammar": text, "inputs": [...], "entry_index": -1, "note": ...}}.
func regressionCases(c *ctx, firstID int, prepare func(*gcase)) []*gcase {
	dir := filepath.Join(c.env.Root, "regressions", c.run.Prop)
	ents, err := os.ReadDir(dir)
	if err != nil {
		return nil
	}
	var out []*gcase
	for _, en := range ents {
		if !strings.HasSuffix(en.Name(), ".json") {
			continue
		}
		b, err := os.ReadFile(filepath.Join(dir, en.Name()))
		if err != nil {
			continue
		}
		var f struct {
			Witness struct {
				Grammar string   `json:"grammar"`
				Inputs  []string `json:"inputs"`
				Entry   *int     `json:"entry_index"`
			} `json:"witness"`
		}
		if err := json.Unmarshal(b, &f); err != nil {
			die("regression file %s: %v", en.Name(), err)
		}
		g, err := fromText(f.Witness.Grammar)
		if err != nil {
			die("regression file %s: %v", en.Name(), err)
		}
		text := f.Witness.Grammar
		cs := &gcase{id: firstID + len(out), g: g, rawText: text, inline: strings.Contains(text, "p.actI(") || strings.Contains(text, "p.actN(")}
		rule := -1
		if f.Witness.Entry != nil {
			rule = *f.Witness.Entry
		}
		for _, in := range f.Witness.Inputs {
			cs.entries = append(cs.entries, entry{rule, in})
		}
		if prepare != nil {
			prepare(cs)
		}
		out = append(out, cs)
		c.run.Count("regression_witnesses", 1)
	}
	return out
}

// witnessString reads one string field of the witness in a replay file.
func witnessString(path, field string) (string, bool) {
	b, err := os.ReadFile(path)
	if err != nil {
		die("replay file: %v", err)
	}
	var f struct {
		Witness map[string]any `json:"witness"`
	}
	if err := json.Unmarshal(b, &f); err != nil {
		die("replay file: %v", err)
	}
	v, ok := f.Witness[field].(string)
	return v, ok
}
