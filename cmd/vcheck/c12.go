package main

import (
	"fmt"
	"math/rand"

	"verif/internal/corpus"
	"verif/internal/gram"
	"verif/internal/ref"
	"verif/internal/report"
)

func init() { register("C12", "exploration", c12) }

// resKey: what a user can observe from one parse (verdict; tokens, tree, printed tree, action trace on success;
// error token and message on failure).
func resKey(r *corpus.Res) string {
	if r.Fatal != "" || r.Panic != "" {
		return "CRASH " + r.Panic + firstLine(r.Fatal)
	}
	// (observer events of state changes / predicates are not part of the key: with memoisation a rule body, and the
	// state change in it, is legitimately evaluated once per offset, without it every time)
	ev := fmt.Sprintf(" end=%d", r.End)
	if r.OK {
		return fmt.Sprintf("OK toks=%s tree=%s print=%q trace=%s", tokStrings(r.Toks), r.Shape, r.Sprint, traceString(r.Trace)) + ev
	}
	return fmt.Sprintf("FAIL max=%v msg=%q", r.Max, r.Err) + ev
}

func c12(c *ctx) {
	n := tierN(c, 150, 2500)
	r := rand.New(rand.NewSource(c.env.Seed))
	peg, err := c.env.BuildPeg(false)
	if err != nil {
		die("%v", err)
	}
	type hcase struct {
		cs    *gcase
		hist  []string
		entry []int // entry rule per step (-1 = Parse() without argument)
	}
	us := []string{"uint8", "uint16", "uint32", "uint64", "uint"}
	// an input "fits" U when every offset 0..len(runes) is a value of U (the end sentinel sits at index len(runes))
	fits := func(u, in string) bool {
		n := len([]rune(in))
		switch u {
		case "uint8":
			return n <= 255
		case "uint16":
			return n <= 65535
		}
		return true
	}
	sizes := []int{0, 1, 1 << 15}
	batch := 100
	for lo := 0; lo < n; lo += batch {
		hi := min(lo+batch, n)
		cp := corpus.New(c.env, peg, false, fmt.Sprintf("c12-%d", lo))
		var hcs []*hcase
		variantOf := map[int]variant{}
		for i := lo; i < hi; i++ {
			var g *gram.Grammar
			alpha := []rune("abc\né😀")
			if i%3 == 2 {
				p := gram.AllOps()
				p.MinRules = 2
				g = gram.Random(r, p)
				alpha = p.Alphabet
			} else {
				g = gram.Backtracky(r, alpha)
			}
			cs := &gcase{id: i, g: g}
			v := vPlain
			if i%4 == 1 {
				// a quarter of the parser types is generated with -noast: actions run inline, the trace is the observable
				v = vNoast
				cs.inline = true
			}
			variantOf[i] = v
			pkg := pkgName(i, v)
			cs.text = gram.PrintGrammar(g, cs.printOpts(pkg, nil))
			cp.Add(&corpus.Job{Pkg: pkg, Text: cs.text, Opts: v.opts, NoAST: v.noast, RuleNames: ruleNames(g), HasActions: g.Count(gram.KAction) > 0, AllU: true})
			// history: a pool of inputs, then a sequence with repeats, long/short alternation, empty input in the middle
			pool := gram.Inputs(r, g, "R0", 10, alpha)
			long := gram.Derive(r, g, "R0", alpha)
			for k := 0; k < 3 && len(long) < 200; k++ {
				long = append(long, gram.Derive(r, g, "R0", alpha)...)
			}
			pool = tractable(g, "R0", append(pool, string(long)))
			if len(tractable(g, "R0", []string{string(long)})) == 0 {
				long = []rune(pool[0])
			}
			hl := 6 + r.Intn(35)
			var h []string
			for k := 0; k < hl; k++ {
				switch {
				case k > 0 && r.Intn(6) == 0:
					h = append(h, h[k-1]) // identical input repeated
				case k == hl/2:
					h = append(h, "")
				case r.Intn(5) == 0:
					h = append(h, string(long))
				default:
					h = append(h, pool[r.Intn(len(pool))])
				}
			}
			// one very long input (tens of thousands of runes, still below 65535 so that it fits uint16): rule number
			// and offset must not be squeezed into too few bits anywhere
			if i%8 == 0 {
				unit := gram.Derive(r, g, "R0", alpha)
				if len(unit) > 0 {
					big := append([]rune{}, unit...)
					for len(big) < 18000+r.Intn(8000) {
						big = append(big, unit...)
					}
					if it := ref.New(g, string(big)); true {
						it.Limit = 3000000
						it.Parse("R0")
						if !it.Over && it.MaxDepth < 200 {
							h[len(h)/3] = string(big)
							c.run.Count("histories_with_an_input_over_20000_runes", 1)
						}
					}
				}
			}
			// inputs at the uint8 limit: exactly 255 runes (fits: offsets 0..255), 254, and 256 (does not fit, left out there)
			if i%4 != 0 {
				unit := gram.Derive(r, g, "R0", alpha)
				if len(unit) > 0 {
					var b255 []rune
					for len(b255) < 256 {
						b255 = append(b255, unit...)
					}
					for _, ln := range []int{255, 254, 256} {
						cand := string(b255[:ln])
						if len(tractable(g, "R0", []string{cand})) == 1 {
							h[r.Intn(len(h))] = cand
							c.run.Count(fmt.Sprintf("histories_with_an_input_of_%d_runes", ln), 1)
						}
					}
					if hl/2 < len(h) {
						h[hl/2] = ""
					}
				}
			}
			// entry rules: mostly Parse(), in a third of the AST-mode grammars some steps start from another rule
			ent := make([]int, len(h))
			for k := range ent {
				ent[k] = -1
				if i%3 == 0 && !v.noast && len(g.Rules) > 1 && r.Intn(3) == 0 {
					ent[k] = 1 + r.Intn(len(g.Rules)-1)
				}
			}
			// a step that enters through another rule must be as tractable as the steps through the first rule are (the
			// inputs were chosen for R0 only): plain PEG evaluation within the step limit, nesting within the bound. A
			// thorough run once met H2 <- H3 '\n' / H3, H3 <- . H2? entered directly on an 18 000-rune input: exponential
			// without memoisation, 18 000 levels deep with it — the child hit its CPU and memory limits (a false alarm).
			for k := range ent {
				if ent[k] < 0 {
					continue
				}
				it := ref.New(g, h[k])
				it.Limit = 400000
				it.Parse(g.Rules[ent[k]].Name)
				if it.Over || it.MaxDepth >= 200 {
					ent[k] = -1
					c.run.Count("steps_through_another_rule_left_to_the_first_rule_(intractable_there)", 1)
				}
			}
			hcs = append(hcs, &hcase{cs, h, ent})
			// 255 short inputs between two long ones, then the first long one again: whatever the parser counts per
			// Reset (a generation, an epoch) in its integer type U comes round after 256 Resets when U is uint8;
			// entries the short inputs never reach must still be gone
			if i%10 == 3 || i%10 == 8 {
				mk := func() string {
					var l []rune
					for k := 0; k < 6 && len(l) < 200; k++ {
						l = append(l, gram.Derive(r, g, "R0", alpha)...)
					}
					if len(l) > 240 {
						l = l[:240]
					}
					return string(l)
				}
				l1, l2 := mk(), mk()
				var shorts []string
				for _, in := range pool {
					if len([]rune(in)) <= 12 {
						shorts = append(shorts, in)
					}
				}
				shorts = append(shorts, "")
				if len(tractable(g, "R0", []string{l1, l2})) == 2 && l1 != l2 {
					wh := []string{l1}
					for k := 0; k < 255; k++ {
						wh = append(wh, shorts[r.Intn(len(shorts))])
					}
					wh = append(wh, l2, l1, shorts[0], l2)
					went := make([]int, len(wh))
					for k := range went {
						went[k] = -1
					}
					hcs = append(hcs, &hcase{cs, wh, went})
					c.run.Count("histories_of_more_than_256_resets", 1)
				}
			}
		}
		if err := cp.Build(); err != nil {
			die("corpus build: %v", err)
		}
		c.run.Count("packages_generated", len(cp.Jobs))
		c.run.Count("packages_not_compiling", cp.CompFailed+cp.GenFailed)
		var reqs []corpus.Req
		type slot struct {
			hc   *hcase
			kind string // "fresh" or "hist"
			k    int    // input index for fresh
			cfg  string
			idx  []int // for hist: the steps of hc.hist this history consists of (those whose input fits U)
		}
		var slots []slot
		for _, hc := range hcs {
			pkg := pkgName(hc.cs.id, variantOf[hc.cs.id])
			// baseline: fresh instance per input (uint32, default size, memo)
			for k, in := range hc.hist {
				reqs = append(reqs, corpus.Req{Pkg: pkg, Entry: hc.entry[k], In: []byte(in), Memo: true, U: "uint32"})
				slots = append(slots, slot{hc, "fresh", k, "fresh/uint32/size0/memo", nil})
			}
			// fresh instances under the other U / Size (result must not depend on them)
			for _, u := range us {
				for _, sz := range sizes {
					if u == "uint32" && sz == 0 {
						continue
					}
					k := r.Intn(len(hc.hist))
					if !fits(u, hc.hist[k]) {
						k = len(hc.hist) / 2 // the empty input fits everything
					}
					if u == "uint8" {
						c.run.Max("longest_input_run_on_uint8_runes", len([]rune(hc.hist[k])))
					}
					reqs = append(reqs, corpus.Req{Pkg: pkg, Entry: hc.entry[k], In: []byte(hc.hist[k]), Memo: true, U: u, Size: sz})
					slots = append(slots, slot{hc, "fresh", k, fmt.Sprintf("fresh/%s/size%d/memo", u, sz), nil})
				}
			}
			// histories on one long-lived instance
			for _, u := range us {
				for _, sz := range sizes {
					for _, memo := range []bool{true, false} {
						var hb [][]byte
						var idx, ent []int
						for k, in := range hc.hist {
							if !fits(u, in) {
								continue // "as long as the input fits that type"
							}
							hb = append(hb, []byte(in))
							idx = append(idx, k)
							ent = append(ent, hc.entry[k])
						}
						if len(idx) < len(hc.hist) {
							c.run.Count("history_steps_left_out_because_input_does_not_fit_U", len(hc.hist)-len(idx))
						}
						reqs = append(reqs, corpus.Req{Pkg: pkg, Mode: "history", Entry: -1, Hist: hb, HistEntry: ent, Memo: memo, U: u, Size: sz})
						slots = append(slots, slot{hc, "hist", 0, fmt.Sprintf("reused/%s/size%d/memo=%v", u, sz, memo), idx})
					}
				}
			}
		}
		results, err := cp.Run(reqs, corpus.RunOpts{})
		if err != nil {
			die("corpus run: %v", err)
		}
		if cp.WatchdogHits > 0 {
			c.run.Incon(fmt.Sprintf("%d child processes were stopped by the wall-clock watchdog or killed from outside (not by this check's limits)", cp.WatchdogHits))
		}
		c.run.Max("peak_child_resident_mb", cp.PeakMB)
		base := map[*hcase][]string{}
		baseOK := map[*hcase][]bool{}
		have := map[*hcase][]bool{} // a baseline result lost with its child process is no baseline
		for i, s := range slots {
			if s.kind == "fresh" && s.cfg == "fresh/uint32/size0/memo" && !results[i].Lost {
				if base[s.hc] == nil {
					base[s.hc] = make([]string, len(s.hc.hist))
					baseOK[s.hc] = make([]bool, len(s.hc.hist))
					have[s.hc] = make([]bool, len(s.hc.hist))
				}
				have[s.hc][s.k] = results[i].Fatal == ""
				base[s.hc][s.k] = resKey(&results[i])
				baseOK[s.hc][s.k] = results[i].OK
				c.run.Eval(1)
				// the baseline itself is checked against the reference (verdict + tokens), so that "fresh" is right
				it := ref.New(s.hc.cs.g, s.hc.hist[s.k])
				it.Limit = 3000000
				start := "R0"
				if e := s.hc.entry[s.k]; e >= 0 {
					start = s.hc.cs.g.Rules[e].Name
				}
				ok, _ := it.Parse(start)
				if !it.Over && (ok != results[i].OK || ok && !variantOf[s.hc.cs.id].noast && refTokStrings(it.Toks) != tokStrings(results[i].Toks)) {
					c.run.Violate("fresh-ref:"+report.Hash(s.hc.cs.text, s.hc.hist[s.k]), "a fresh parser disagrees with the reference (a C01/C03 matter, observed here)",
						map[string]any{"grammar": s.hc.cs.text, "input": s.hc.hist[s.k], "got": resKey(&results[i]), "ref_verdict": ok, "ref_tokens": refTokStrings(it.Toks)})
				}
			}
		}
		for i, s := range slots {
			res := results[i]
			if res.Lost || base[s.hc] == nil {
				continue
			}
			hid := report.Hash(s.hc.cs.text, fmt.Sprint(s.hc.hist))
			if s.kind == "fresh" {
				if s.cfg == "fresh/uint32/size0/memo" {
					continue
				}
				if !have[s.hc][s.k] {
					continue
				}
				c.run.Eval(1)
				if got := resKey(&res); got != base[s.hc][s.k] {
					c.run.Violate("config:"+s.cfg+":"+hid, fmt.Sprintf("result depends on the instantiation/Size: %s differs from uint32/default size", s.cfg),
						map[string]any{"grammar": s.hc.cs.text, "input": s.hc.hist[s.k], "config": s.cfg, "got": got, "fresh_uint32": base[s.hc][s.k]})
				}
				continue
			}
			if res.Fatal != "" || res.Panic != "" {
				c.run.Violate("crash:"+s.cfg+":"+hid, "reused parser crashed: "+res.Panic+firstLine(res.Fatal), map[string]any{"grammar": s.hc.cs.text, "history": s.hc.hist, "config": s.cfg})
				continue
			}
			if len(res.Hist) != len(s.idx) {
				c.run.Violate("short:"+s.cfg+":"+hid, "history result incomplete", map[string]any{"grammar": s.hc.cs.text, "history": s.hc.hist, "config": s.cfg})
				continue
			}
			if k, got, want, bad := keptErrorChanged(res.Hist, res.LateErr); bad {
				c.run.Violate("kept-error:"+s.cfg+":"+hid, fmt.Sprintf("the error returned for step %d of a history reads differently once the same parser has been reset with later inputs (%s)", k, s.cfg),
					map[string]any{"grammar": s.hc.cs.text, "history": s.hc.hist, "config": s.cfg, "step": k, "message_when_returned": want, "message_after_the_history": got})
			} else {
				c.run.Count("errors_kept_across_later_inputs", len(res.LateErr))
			}
			shrinkAfterSuccess, successAfterFailure := false, false
			prev := -1
			for j := range res.Hist {
				k := s.idx[j]
				if !have[s.hc][k] {
					continue
				}
				c.run.Eval(1)
				if got := resKey(&res.Hist[j]); got != base[s.hc][k] {
					c.run.Violate("leak:"+s.cfg+":"+hid, fmt.Sprintf("step %d of a history on one reused parser (%s) differs from a fresh parser on the same input", k, s.cfg),
						map[string]any{"grammar": s.hc.cs.text, "history": s.hc.hist, "step": k, "input": s.hc.hist[k], "config": s.cfg, "reused": got, "fresh": base[s.hc][k]})
					break
				}
				if prev >= 0 {
					if baseOK[s.hc][prev] && len(s.hc.hist[k]) < len(s.hc.hist[prev]) {
						shrinkAfterSuccess = true
					}
					if !baseOK[s.hc][prev] && baseOK[s.hc][k] {
						successAfterFailure = true
					}
				}
				prev = k
			}
			if shrinkAfterSuccess && successAfterFailure {
				c.run.Nontrivial(hid)
				c.run.Count("histories_with_shrink_after_success_and_success_after_failure", 1)
			}
			if shrinkAfterSuccess {
				c.run.Count("histories_with_shrink_after_success", 1)
			}
			if successAfterFailure {
				c.run.Count("histories_with_success_after_failure", 1)
			}
			c.run.Count("histories_run", 1)
			if s.cfg == "reused/uint16/size1/memo=true" {
				c.run.Sample(map[string]any{"grammar": s.hc.cs.text, "history": s.hc.hist, "config": s.cfg, "verdicts": baseOK[s.hc]}, 2)
			}
		}
		cp.Remove()
	}
	requireCov(c, "histories_run", "histories_with_shrink_after_success", "histories_with_success_after_failure")
	c.run.Rule = "cases: shared-prefix and all-operator grammars (captures, actions, memo revisits; a quarter generated with -noast, whose inline action trace is compared); per grammar one history of 6-40 inputs (accepted and rejected, repeated identical inputs, a long input between short ones, the empty input in the middle; in an eighth of the grammars one input of 18 000-26 000 runes, i.e. more than 65 535 tokens; in a third some steps enter through Parse(rule) of another rule; for a fifth of the grammars a second history of 260 steps: a long input, 255 short ones, another long one, the first again — one full period of anything counted per Reset in uint8) run on ONE instance with Buffer=in; Reset(); Parse(); Execute(); AST()/SprintSyntaxTree() under U in {uint8,uint16,uint32,uint64,uint} (a step whose input has more runes than U can count is left out of that history: uint8 sees inputs of up to 255 runes) x Size in {unset,1,32768} x memo on/off, and on a fresh instance per input. " +
		"Oracle: every step equals the fresh-instance result for that input (verdict; tokens, tree, printed tree, action trace on success; error token and message on failure), fresh results are equal across U/Size and agree with the reference interpreter. " +
		"distinct_nontrivial = distinct (grammar, history) containing at least one shorter input right after a success and one success right after a failure."
	c.run.Assume("an input fits U when its rune count is a value of U (255 for uint8, 65 535 for uint16); inputs stay below 65 535 runes; tokens after a failed parse are not compared")
}
