package main

import (
	"bytes"
	"fmt"
	"go/format"
	"math/rand"
	"os"
	"path/filepath"
	"strings"
	"verif/internal/pegsyntax"

	"verif/internal/corpus"
	"verif/internal/gram"
	"verif/internal/report"
)

func init() { register("C08", "exploration", c08) }

type c08case struct {
	id   int
	g    *gram.Grammar
	opts gram.PrintOpts
	kind string
	text string // printed with package name replaced per variant
	raw  string // replay: grammar text used verbatim (package clause renamed)
}

// useFile references the public API of a generated parser, so that "compiles" includes "the API is there".
func useFile(pkg, typ string, noast, hasActions bool) string {
	var sb strings.Builder
	fmt.Fprintf(&sb, "package %s\n\nfunc useAPI() error {\n\tp := &%s[uint32]{Buffer: \"x\"}\n", pkg, typ)
	if noast {
		sb.WriteString("\tif err := p.Init(Pretty[uint32](true)); err != nil {\n\t\treturn err\n\t}\n")
	} else {
		sb.WriteString("\tif err := p.Init(Pretty[uint32](true), Size[uint32](8), DisableMemoize[uint32]()); err != nil {\n\t\treturn err\n\t}\n")
	}
	sb.WriteString("\tp.Reset()\n\terr := p.Parse()\n")
	if !noast {
		sb.WriteString("\t_ = p.Tokens()\n\t_ = p.AST()\n\t_ = p.SprintSyntaxTree()\n")
		if hasActions {
			sb.WriteString("\tp.Execute()\n")
		}
	}
	sb.WriteString("\treturn err\n}\n\nvar _ = useAPI\n")
	return sb.String()
}

func c08(c *ctx) {
	r := rand.New(rand.NewSource(c.env.Seed))
	n := tierN(c, 110, 1500)
	var cases []*c08case
	esc := []rune("ab'\"[]-\\^\x00\n\t\x1b\x7féÿ\u0080 AZ09 \U0001F600\U0010FFFF")
	headers := []string{"", "# a comment\n", "// another  \n\n\n\n", "\n\n  \t\n", "# one\n# two\n\n\n// three */ /* \n", "#\n", "//no space\n \n", "#\ttab and trailing blanks \t \n"}
	type impSet struct {
		lines []string
		state string
	}
	importSets := []impSet{
		{nil, ""},
		{[]string{`import "fmt"`}, " S fmt.Stringer"},
		{[]string{`import f "fmt"`, `import "os/exec"`}, " S f.Stringer\n C *exec.Cmd"},
		{[]string{"import (\n\"strings\"\nx \"os\"\n)"}, " B strings.Builder\n F *x.File"},
		{[]string{"import (\n x \"os\"\n \"os/exec\"\n \"bytes\"\n)"}, " F *x.File\n C *exec.Cmd\n BB bytes.Buffer"},
		{[]string{`import "strconv"`, `import "io"`, `import "slices"`}, " E strconv.NumError\n W io.Writer"},
		{[]string{`import z "unicode/utf8"`, `import a "unicode"`}, " R [z.UTFMax]byte\n T *a.RangeTable"},
		// an alias that merely repeats the package's own name, for packages the parser itself imports (with an AST: io,
		// os, bytes; always: fmt, slices, strconv) — the name must not be declared twice
		{[]string{`import io "io"`}, " W io.Writer"},
		{[]string{"import (\n fmt \"fmt\"\n strconv \"strconv\"\n)"}, " S fmt.Stringer\n E strconv.NumError"},
		{[]string{`import os "os"`, `import b "bytes"`, `import bytes "bytes"`}, " F *os.File\n BB bytes.Buffer\n B2 b.Buffer"},
	}
	actions := []string{"p.N++", "v := p.N; p.N = v + 1", "v := 2; p.N += v", "p.N = (p.N + 5) % 7", "_ = fmt.Sprintf(\"%s/%d%%\", \"a\", p.N)", "/* a comment */ p.N++", "// a line comment\n p.N++", "s := \"*/\"; _ = s", "if true { p.N++ }", "r := `{}`; _ = r", "p.N += len(\"\\\"{}\")", "func() { p.N++ }()", "", "p.N++ // a comment up to the closing brace", "// nothing but a comment",
		// number literals gofmt rewrites (0X1F -> 0x1F, 1E3 -> 1e3): the generated file must already be what gofmt makes of it
		"p.N = 0X1F + 0B11 + 0O17", "f := 1E3 + 0XAP1; _ = f"}
	preds := []string{"true", "p.N >= 0 /* {} */", "len(\"*/\") == 2", "func() bool { return true }()", "!false && (true)",
		// predicates written over several lines, ending in a newline, or carrying line comments
		"\n  p.N >= 0\n", "p.N >= 0 // never negative\n", "p.N >= 0 && // first\n  true /* second */\n", "true // to the end of the text", "len(\"//\") == 2",
		// predicates that BEGIN with a comment (the first repair of F27 wrapped the text as "return <text>")
		"// first a comment\n  p.N >= 0", "/* a\n block */ p.N >= 0 // and a line comment\n", "/* only a block comment */ p.N >= 0"}
	for i := 0; i < n; i++ {
		var g *gram.Grammar
		kind := "profile-mix"
		switch i % 6 {
		case 0:
			g = gram.ChoiceHeavy(r)
		case 1:
			g = gram.Backtracky(r, esc[:10])
		case 2, 3:
			p := gram.AllOps()
			p.Alphabet = esc
			p.LLit, p.LStr, p.LCILit, p.LClass, p.LNegClass, p.LCIClass = 6, 6, 4, 5, 4, 3
			g = gram.Random(r, p)
			kind = "surface-literals"
		case 4:
			// no terminal at all / captures nobody reads / actions without capture
			p := gram.AllOps()
			p.LLit, p.LStr, p.LCILit, p.LRange, p.LClass, p.LNegClass, p.LCIClass, p.LDot, p.LRef = 0, 0, 0, 0, 0, 0, 0, 0, 1
			p.WStar, p.WPlus, p.WLeaf = 0, 0, 0
			if i%12 == 4 {
				p.LDot = 1
				p.WLeaf = 3
			}
			g = gram.Random(r, p)
			kind = "no-terminals"
		default:
			if i%12 == 5 {
				// accepted with warnings only: unused rules, undefined names, left recursion (the output must still be
				// a valid Go file: "every grammar the front end accepts")
				g, _ = gram.Planted(r)
				for len(g.Diagnose().Duplicate) > 0 {
					g, _ = gram.Planted(r)
				}
				kind = "warned"
			} else {
				g = gram.Random(r, gram.AllOps())
			}
		}
		is := importSets[r.Intn(len(importSets))]
		hasCap := g.Count(gram.KCapture) > 0
		ii := i
		o := gram.PrintOpts{Type: []string{"P", "Peg", "my_Parser1"}[r.Intn(3)], Header: headers[r.Intn(len(headers))], Imports: is.lines,
			State: []string{" N int\n M map[string]struct{ a, b int }", " // the state\n N int // a counter\n /* block */ M map[string]struct{ a, b int }"}[i%2] + func() string {
				if is.state != "" {
					return "\n" + is.state
				}
				return ""
			}(),
			ActionCode: func(id int) string {
				a := actions[(id+ii)%len(actions)]
				if (hasCap || ii%2 == 0) && (id+ii)%4 == 0 {
					// (text is read also in grammars without any capture: it is the empty string there)
					a = "p.N += len(text)"
				}
				return a
			},
			StateCode: func(id int) string {
				// two of the forms declare the same variable: every state change of a rule lands in one Go function, between
				// the jumps of the alternatives around it
				return []string{"p.N++", "p.N-- // down\n", "/* c */ p.N = int(position)", "k := 1; p.N += k", "var k = int(position)\n p.N -= k // local\n"}[(id+ii)%5]
			},
			PredText: func(e *gram.Expr) string {
				switch e.Pred {
				case gram.PFalse:
					return "false /* never */"
				case gram.PFn:
					return fmt.Sprintf("(int(position)*7+%d*3)%%5 != 0", e.Arg)
				}
				return preds[(e.Arg+ii)%len(preds)]
			}}
		if i%3 != 0 {
			o.V = rand.New(rand.NewSource(c.env.Seed*977 + int64(i)))
		}
		cases = append(cases, &c08case{id: i, g: g, opts: o, kind: kind})
	}
	// sizes: hundreds of rules (crosses the uint8 rule-type boundary, also through actions)
	nbig := tierN(c, 3, 10)
	// exact boundary sizes: without captures a grammar of nr rules + nr actions has 2*nr+1 rule ids (+1 for the
	// unknown rule constant): 125..129 rules straddle the 8-bit limits 255/256/257 on every counter involved
	boundary := []int{126, 127, 128}
	if c.env.Tier == "thorough" {
		boundary = []int{124, 125, 126, 127, 128, 129, 253, 254, 255, 256}
	}
	for b := 0; b < nbig+len(boundary); b++ {
		nr := 130 + r.Intn(300)
		if b >= nbig {
			nr = boundary[b-nbig]
		}
		g := &gram.Grammar{}
		var top []*gram.Expr
		for i := 1; i <= nr; i++ {
			top = append(top, gram.Ref(fmt.Sprintf("R%d", i)))
		}
		g.Rules = append(g.Rules, &gram.Rule{Name: "R0", E: gram.Un(gram.KStar, gram.Alt(top...))})
		for i := 1; i <= nr; i++ {
			body := gram.Seq(gram.Lit(fmt.Sprintf("k%d;", i)), gram.Act())
			if b%2 == 1 && b < nbig {
				body = gram.Seq(gram.Un(gram.KCapture, gram.Lit(fmt.Sprintf("k%d;", i))), gram.Act(), gram.Un(gram.KQuery, gram.Act()))
			}
			g.Rules = append(g.Rules, &gram.Rule{Name: fmt.Sprintf("R%d", i), E: body})
		}
		g.Number()
		cases = append(cases, &c08case{id: len(cases), g: g, kind: fmt.Sprintf("many-rules-%d", nr), opts: gram.PrintOpts{State: " N int", ActionCode: func(id int) string { return "p.N++" }}})
	}
	// a -switch case whose sequence ends in an empty element behind an optional part or a choice: the label that part
	// leaves behind is the last thing of the case, and the case still needs its "break" (F23; seeded change C08-G
	// took the shape from the repair's own commit message)
	{
		L := gram.Lit
		q := func(e *gram.Expr) *gram.Expr { return gram.Un(gram.KQuery, e) }
		shapes := []*gram.Expr{
			gram.Seq(gram.Alt(gram.Seq(L("a"), q(L("x")), gram.Nil()), gram.Seq(L("b"), gram.Alt(L("y"), L("z")), gram.Nil()), gram.Seq(L("e"), L("f"))), L("q")),
			gram.Seq(gram.Alt(gram.Seq(L("x"), q(L("t")), gram.Nil()), gram.Seq(L("q"), q(gram.Alt(L("t"), L("r"))), gram.Nil()), gram.Seq(gram.Rng('a', 'f'), L("f")), gram.Seq(L("y"), gram.Un(gram.KStar, L("t")), gram.Nil())), L(";")),
			gram.Seq(gram.Alt(gram.Seq(L("a"), q(L("x")), gram.Nil(), gram.Nil()), gram.Seq(L("b"), gram.Un(gram.KNot, L("c")), q(L("y")), gram.Nil()), gram.Seq(L("c"), gram.Un(gram.KPlus, L("d")), gram.Nil()), gram.Seq(gram.Rng('m', 'z'), q(gram.Seq(L("1"), L("2"))), gram.Act(), gram.Nil())), gram.Un(gram.KNot, gram.Dot())),
		}
		for _, e := range shapes {
			for _, spell := range []bool{false, true} {
				g := &gram.Grammar{Rules: []*gram.Rule{{Name: "R0", E: e}}}
				g.Number()
				o := gram.PrintOpts{State: " N int", ActionCode: func(int) string { return "p.N++" }}
				if spell {
					o.V = rand.New(rand.NewSource(c.env.Seed*31 + int64(len(cases))))
				}
				cases = append(cases, &c08case{id: len(cases), g: g, kind: "surface-case-ending-in-an-empty-element", opts: o})
				c.run.Count("grammars_with_a_switch_case_ending_in_an_empty_element", 1)
			}
		}
	}
	// rules whose printed form (it is quoted in a comment above the rule's function) is longer than a kilobyte and made
	// of multi-byte characters, with names one byte longer each: wherever such a text is cut, wrapped or measured in
	// bytes, one of the twelve has a character straddling the spot
	{
		g := &gram.Grammar{}
		var top []*gram.Expr
		for i := 0; i < 12; i++ {
			name := "W" + strings.Repeat("a", i)
			var kids []*gram.Expr
			for k := 0; k < 260; k++ {
				kids = append(kids, gram.Lit(string(rune(0x4E00+(i*260+k)%3000))))
			}
			g.Rules = append(g.Rules, &gram.Rule{Name: name, E: gram.Seq(kids...)})
			top = append(top, gram.Ref(name))
		}
		g.Rules = append([]*gram.Rule{{Name: "R0", E: gram.Seq(gram.Alt(top...), gram.Un(gram.KNot, gram.Dot()))}}, g.Rules...)
		g.Number()
		cases = append(cases, &c08case{id: len(cases), g: g, kind: "surface-long-rules-of-multi-byte-characters", opts: gram.PrintOpts{State: " N int"}})
		c.run.Count("grammars_with_kilobyte_rules_of_multi_byte_characters", 1)
	}
	// ranges whose bounds are ordinary characters but which span the surrogate block U+D800-U+DFFF (e.g. "all of the
	// BMP above ASCII"), as a -switch case next to a larger alternative (so that the range is not the default case)
	for _, sr := range [][4]rune{{0xD7FE, 0xE001, 0xE002, 0xF8FF}, {0x80, 0xFFFF, 0x10000, 0x10FFFF}, {0xD7FF, 0xE000, 0xE001, 0xE900}} {
		g := &gram.Grammar{Rules: []*gram.Rule{{Name: "R0", E: gram.Seq(gram.Alt(
			gram.Seq(gram.Rng(sr[0], sr[1]), gram.Lit("x")),
			gram.Seq(gram.Rng(sr[2], sr[3]), gram.Lit("y")),
			gram.Seq(gram.Lit("a"), gram.Lit("z"))), gram.Un(gram.KNot, gram.Dot()))}}}
		g.Number()
		cases = append(cases, &c08case{id: len(cases), g: g, kind: "surface-range-spanning-the-surrogates", opts: gram.PrintOpts{State: " N int"}})
		c.run.Count("grammars_with_a_range_spanning_the_surrogate_block", 1)
	}
	// a language feature that occurs ONLY in a rule unreachable from the first rule (peg warns and still writes the
	// parser): what the template declares for that feature (matchDot, text, Execute, the pretty-printer's imports)
	// has to be decided from the same rules the emitter emits code for
	features := []struct {
		name string
		e    *gram.Expr
		base *gram.Expr
	}{
		{"dot", gram.Seq(gram.Lit("u"), gram.Dot()), gram.Lit("a")},
		{"notdot", gram.Un(gram.KNot, gram.Dot()), gram.Lit("a")},
		{"action", gram.Seq(gram.Lit("u"), gram.Act()), gram.Lit("a")},
		{"capture", gram.Un(gram.KCapture, gram.Lit("u")), gram.Lit("a")},
		{"captureaction", gram.Seq(gram.Un(gram.KCapture, gram.Lit("u")), gram.Act()), gram.Lit("a")},
		{"action-while-the-used-rule-captures", gram.Seq(gram.Lit("u"), gram.Act()), gram.Un(gram.KCapture, gram.Rng('a', 'c'))},
		{"capture-while-the-used-rule-acts", gram.Un(gram.KCapture, gram.Lit("u")), gram.Seq(gram.Lit("a"), gram.Act())},
		{"dot-while-the-used-rule-has-notdot", gram.Seq(gram.Lit("u"), gram.Dot()), gram.Seq(gram.Lit("a"), gram.Un(gram.KNot, gram.Lit("b")))},
		{"string", gram.Lit("uvw"), gram.Lit("a")},
		{"cistring", gram.LitCI("uvw"), gram.Lit("a")},
		{"char", gram.Lit("u"), gram.Rng('a', 'c')},
		{"cichar", gram.LitCI("u"), gram.Rng('a', 'c')},
		{"range", gram.Rng('u', 'w'), gram.Lit("a")},
		{"class", gram.Cls(gram.Item{Lo: 'u', Hi: 'u'}, gram.Item{Lo: 'w', Hi: 'y'}), gram.Lit("a")},
		{"negclass", &gram.Expr{K: gram.KClass, Neg: true, Items: []gram.Item{{Lo: 'u', Hi: 'w'}}}, gram.Lit("a")},
		{"predicate", gram.Seq(gram.Pred(gram.PTrue, 0), gram.Lit("u")), gram.Lit("a")},
		{"state", gram.Seq(gram.State(), gram.Lit("u")), gram.Lit("a")},
		{"repeat", gram.Seq(gram.Un(gram.KStar, gram.Lit("u")), gram.Un(gram.KPlus, gram.Lit("v")), gram.Un(gram.KQuery, gram.Lit("w"))), gram.Lit("a")},
		{"choice", gram.Alt(gram.Lit("u"), gram.Lit("v"), gram.Lit("w")), gram.Lit("a")},
	}
	for _, ft := range features {
		g := &gram.Grammar{Rules: []*gram.Rule{
			{Name: "R0", E: gram.Seq(gram.Ref("M"), gram.Un(gram.KQuery, gram.Ref("M")))},
			{Name: "M", E: ft.base},
			{Name: "Unused", E: ft.e},
		}}
		g.Number()
		cases = append(cases, &c08case{id: len(cases), g: g, kind: "warned-feature-only-in-unused-rule-" + ft.name,
			opts: gram.PrintOpts{State: " N int", ActionCode: func(id int) string { return "p.N += len(text)" }, StateCode: func(id int) string { return "p.N++" }}})
		c.run.Count("grammars_with_a_feature_only_in_an_unused_rule", 1)
	}
	if c.replay != "" {
		// --replay: the witness' grammar text verbatim, under all eight option sets
		text, ok := witnessString(c.replay, "grammar")
		if !ok {
			die("this witness has no grammar text")
		}
		f, err := pegsyntax.Parse(text)
		if err != nil {
			die("witness grammar cannot be read back: %v", err)
		}
		g, gerr := fromText(text)
		if gerr != nil {
			g = &gram.Grammar{Rules: []*gram.Rule{{Name: "R0", E: gram.Act()}}} // only used to decide whether Execute exists
		}
		cases = []*c08case{{id: 0, g: g, kind: "warned", raw: text, opts: gram.PrintOpts{Type: f.Type}}}
	}
	peg, err := c.env.BuildPeg(false)
	if err != nil {
		die("%v", err)
	}
	seenOut := map[string]bool{}
	batch := 60
	for lo := 0; lo < len(cases); lo += batch {
		hi := min(lo+batch, len(cases))
		cp := corpus.New(c.env, peg, false, fmt.Sprintf("c08-%d", lo))
		for _, cs := range cases[lo:hi] {
			for _, v := range combos8 {
				pkg := pkgName(cs.id, v)
				o := cs.opts
				o.Package = pkg
				if o.V != nil {
					o.V = rand.New(rand.NewSource(c.env.Seed*977 + int64(cs.id))) // same spelling for all eight
				}
				typ := o.Type
				if typ == "" {
					typ = "P"
				}
				text := gram.PrintGrammar(cs.g, o)
				if cs.raw != "" {
					text = pkgClause.ReplaceAllString(cs.raw, "package "+pkg)
				}
				if v.name == "plain" {
					cs.text = text
				}
				cp.Add(&corpus.Job{Pkg: pkg, Text: text, Opts: v.opts, NoAST: v.noast, NoProbe: true, Type: typ,
					Extra: map[string]string{"use.go": useFile(pkg, typ, v.noast, reachableActions(cs.g) > 0)}})
			}
		}
		cp.Generate()
		if err := cp.Compile(); err != nil {
			die("corpus build: %v", err)
		}
		for _, cs := range cases[lo:hi] {
			for _, v := range combos8 {
				j := cp.Job(pkgName(cs.id, v))
				c.run.Eval(1)
				c.run.Count("packages_"+v.name, 1)
				id := report.Hash(cs.text, v.name)
				w := func(extra map[string]any) map[string]any {
					m := map[string]any{"grammar": j.Text, "options": v.opts, "kind": cs.kind, "peg_exit": j.GenExit, "peg_stderr": j.GenStderr}
					for k, x := range extra {
						m[k] = x
					}
					return m
				}
				switch {
				case j.GenExit != 0 || len(j.GenOut) == 0:
					c.run.Violate("generate:"+id, fmt.Sprintf("peg %v failed on an accepted grammar (exit %d): %s", v.opts, j.GenExit, firstLine(strings.TrimSpace(j.GenStderr))), w(nil))
				case strings.TrimSpace(j.GenStderr) != "" && !strings.HasPrefix(cs.kind, "warned"):
					c.run.Violate("stderr:"+id, fmt.Sprintf("peg %v printed diagnostics for a clean grammar: %s", v.opts, firstLine(j.GenStderr)), w(nil))
				case !j.Compiled:
					c.run.Violate("compile:"+id, fmt.Sprintf("the file generated with %v does not compile: %s", v.opts, firstLine(strings.TrimSpace(j.CompErr))), w(map[string]any{"go_build": j.CompErr}))
				default:
					f, err := format.Source(j.GenOut)
					if err != nil {
						c.run.Violate("gofmt-error:"+id, "gofmt cannot parse the generated file: "+err.Error(), w(nil))
					} else if !bytes.Equal(f, j.GenOut) {
						c.run.Violate("gofmt:"+id, fmt.Sprintf("the file generated with %v is not in canonical gofmt form: %s", v.opts, firstDiff(j.GenOut, f)), w(map[string]any{"first_difference": firstDiff(j.GenOut, f)}))
					} else {
						c.run.Count("packages_ok", 1)
						// distinct emitted files: header line dropped, package name normalised (it differs per variant by construction)
						h := shaHex(bytes.ReplaceAll(j.GenOut[bytes.IndexByte(j.GenOut, '\n')+1:], []byte(j.Pkg), []byte("PKG")))
						if !seenOut[h] {
							seenOut[h] = true
							c.run.Nontrivial(h)
						}
					}
				}
			}
			c.run.Count("grammars_"+strings.SplitN(cs.kind, "-", 2)[0], 1)
			if cs.id%37 == 0 && len(cs.text) < 1500 {
				c.run.Sample(map[string]any{"grammar": cs.text, "kind": cs.kind, "option_sets": 8}, 3)
			}
		}
		cp.Remove()
	}
	if c.env.Tier == "thorough" {
		c08huge(c, peg)
	}
	requireCov(c, "packages_ok", "grammars_many", "grammars_no", "grammars_surface", "grammars_profile", "grammars_warned")
	c.run.Rule = "cases: grammars from all profiles plus a surface profile (user imports single/several/grouped/aliased/duplicating runtime imports/aliased with the package's own name/sorting differently with and without alias — each used by the parser state so that they are needed; header comments with # and // and blank-line runs; state with nested braces; literals and classes over NUL, control, quote, bracket, dash, caret, backslash, Latin-1, U+2028, non-BMP and U+10FFFF characters; actions, state changes and predicates containing /* */ and // comments, predicates over several lines, state changes that declare variables, ranges spanning the surrogate block as a -switch case, '*/' in strings, nested braces, raw strings; grammars without any terminal; captures nobody reads; actions without capture; grammars accepted with warnings only: unused rules, undefined names, left recursion) and grammars of 130-430 rules plus exact boundary sizes (126-128 rules = 253-257 rule ids; more in thorough) (x1-3 actions each: beyond 255 rule ids; in the thorough tier one 33 000-rule grammar with 66 001 rule ids is generated and checked for syntax, 32-bit rule type and gofmt form but not compiled — the Go compiler needs hours for it); each generated with the real peg under all eight -inline/-switch/-noast combinations. " +
		"Oracle: exit 0, empty stderr (warnings only for the warned kind), the file compiles together with a file that uses the public API, and go/format.Source(file) == file. distinct_nontrivial = distinct emitted files (sha256 below the header line, package name normalised) that passed; the same grammar often yields the same file under several option sets."
	c.run.Assume("rule names R<n>/H<n>..., actions are valid Go; predicates are Go expressions, possibly spread over several lines and with /* */ or // comments")
}

func firstDiff(a, b []byte) string {
	la, lb := strings.Split(string(a), "\n"), strings.Split(string(b), "\n")
	for i := 0; i < len(la) && i < len(lb); i++ {
		if la[i] != lb[i] {
			return fmt.Sprintf("line %d: %q vs gofmt %q", i+1, la[i], lb[i])
		}
	}
	return fmt.Sprintf("length %d vs %d lines", len(la), len(lb))
}

// c08huge: one grammar with more than 65535 rule ids (uint32 rule type), thorough tier only. The Go compiler needs
// hours for the single function holding 66 000 closures (measured: >70 CPU-minutes without finishing), so this
// file is NOT compiled: it must be generated, be syntactically valid Go, declare a 32-bit rule type, and be a
// gofmt fixed point. The uint8->uint16 boundary is crossed (and compiled) by the many-rules grammars above.
func c08huge(c *ctx, peg string) {
	nr := 33000
	var sb strings.Builder
	sb.WriteString("package big\n\ntype P Peg {\n N int\n}\n\nR0 <- (")
	for i := 1; i <= nr; i++ {
		if i > 1 {
			sb.WriteString(" / ")
		}
		fmt.Fprintf(&sb, "R%d", i)
		if i%20 == 0 {
			sb.WriteString("\n  ")
		}
	}
	sb.WriteString(")*\n")
	for i := 1; i <= nr; i++ {
		fmt.Fprintf(&sb, "R%d <- 'k%d;' { p.N++ }\n", i, i)
	}
	d := filepath.Join(c.env.Scratch, "c08-huge")
	res := runPeg(peg, d, sb.String())
	defer os.RemoveAll(d)
	c.run.Eval(1)
	c.run.Count("huge_grammar_rule_ids", 2*nr+1)
	switch {
	case res.exit != 0 || len(res.out) == 0:
		c.run.Violate("huge-generate", fmt.Sprintf("peg failed on a grammar with %d rules: %s", nr, firstLine(res.stderr)), map[string]any{"rules": nr, "stderr": tail(res.stderr, 2000)})
	case !bytes.Contains(res.out, []byte("type pegRule uint32")):
		c.run.Violate("huge-ruletype", "more than 65535 rule ids need a 32-bit rule type", map[string]any{"rules": nr})
	default:
		f, err := format.Source(res.out)
		if err != nil {
			c.run.Violate("huge-syntax", "the parser for a grammar with more than 65535 rule ids is not valid Go: "+err.Error(), map[string]any{"rules": nr})
		} else if !bytes.Equal(f, res.out) {
			c.run.Violate("huge-gofmt", "the parser for the huge grammar is not gofmt-clean: "+firstDiff(res.out, f), map[string]any{"rules": nr})
		} else {
			c.run.Count("huge_grammar_ok", 1)
		}
	}
}

// reachableActions counts the actions in rules reachable from the first rule (Execute exists only if there is one).
func reachableActions(g *gram.Grammar) int {
	unused := map[string]bool{}
	for _, n := range g.Diagnose().Unused {
		unused[n] = true
	}
	n := 0
	g.Walk(func(r *gram.Rule, e *gram.Expr) {
		if e.K == gram.KAction && !unused[r.Name] {
			n++
		}
	})
	return n
}
