package main

import (
	"fmt"
	"math/rand"
	"sort"

	"verif/internal/corpus"
	"verif/internal/gram"
	"verif/internal/ref"
	"verif/internal/report"
)

func init() { register("C01", "exploration", c01) }

func tierN(c *ctx, quick, thorough int) int {
	if c.env.Tier == "thorough" {
		return thorough
	}
	return quick
}

// covAccumulate merges the reference interpreter's coverage counters into the run (prefix "ref_").
func covAccumulate(c *ctx, it *ref.Interp) {
	for k, v := range it.Cov {
		c.run.Count("ref_"+k, v)
	}
}

// requireCov marks the run inconclusive if a coverage cell the property needs stayed empty.
func requireCov(c *ctx, keys ...string) {
	if c.replay != "" {
		return // a replay runs one witness, not a workload
	}
	for _, k := range keys {
		if c.run.Counters[k] == 0 {
			c.run.Incon("required coverage cell never observed: " + k)
		}
	}
}

func c01(c *ctx) {
	n := tierN(c, 240, 5000)
	r := rand.New(rand.NewSource(c.env.Seed))
	prof := gram.AllOps()
	var cases []*gcase
	for i := 0; i < n; i++ {
		var g *gram.Grammar
		alpha := prof.Alphabet
		switch i % 6 {
		case 1, 4: // shared prefixes through rule references: the same rule is called from several alternatives
			alpha = []rune("abc\né😀")
			g = gram.Backtracky(r, alpha)
		case 3: // wide choices
			g = gram.ChoiceHeavy(r)
			alpha = append([]rune("abcdefgz"), g.Runes()...)
		default:
			g = gram.Random(r, prof)
		}
		cs := &gcase{id: i, g: g}
		if i%5 == 2 {
			// the ends of the code space are ordinary characters: '.', negated classes and lookahead must treat
			// U+0000 and U+10FFFF like any other rune (the generated parser marks end of input with a sentinel rune)
			alpha = append(append([]rune(nil), alpha...), 0, 0x10FFFF, 0x10FFFF, 0xFFFD)
			c.run.Count("cases_with_extreme_runes_in_inputs", 1)
		}
		cs.entries = entriesFor(r, g, 14, true, 5, alpha)
		cases = append(cases, cs)
	}
	cases = append(cases, boundaryCases(len(cases))...) // terminals at the ends of the code space (see c13.go)
	entriesSeen := map[string]bool{}
	f := &family{c: c, tag: "c01", variantSeed: true,
		retries: []string{"memo", "nomemo"},
		configs: []config{{name: "memo", v: vPlain, memo: true}, {name: "nomemo", v: vPlain, memo: false}}}
	f.judge = func(cs *gcase, e entry, it *ref.Interp, refOK bool, refEnd int, res map[string]*corpus.Res) {
		covAccumulate(c, it)
		id := report.Hash(cs.text, fmt.Sprint(e.rule), e.input)
		for _, name := range []string{"memo", "nomemo"} {
			r := res[name]
			if r == nil {
				continue
			}
			c.run.Eval(1)
			w := func() map[string]any {
				return witness(cs, e, map[string]any{"config": name, "ref_verdict": refOK, "ref_end": refEnd, "got_verdict": r.OK, "got_tokens": tokStrings(r.Toks), "panic": r.Panic, "fatal": r.Fatal})
			}
			switch {
			case r.Fatal != "":
				c.run.Violate("fatal:"+id, "generated parser killed the process (entry "+e.ruleName(cs.g)+")", w())
			case r.Panic != "":
				c.run.Violate("panic:"+id, "generated parser panicked: "+r.Panic, w())
			case r.OK != refOK:
				c.run.Violate("verdict:"+id, fmt.Sprintf("verdict differs from PEG semantics: parser %v, reference %v (entry %s, input %q)", r.OK, refOK, e.ruleName(cs.g), e.input), w())
			case r.OK:
				if len(r.Toks) == 0 {
					c.run.Violate("notokens:"+id, "successful parse recorded no token for the entry rule", w())
				} else if last := r.Toks[len(r.Toks)-1]; int(last.E) != refEnd || last.B != 0 {
					c.run.Violate("prefix:"+id, fmt.Sprintf("consumed prefix differs: parser [%d,%d), reference [0,%d)", last.B, last.E, refEnd), w())
				}
			}
		}
		if e.rule > 0 {
			entriesSeen[fmt.Sprintf("%d/%d", cs.id, e.rule)] = true
			c.run.Count("non_first_entry_evaluations", 1)
		}
		if it.Cov["seq_failed_after_consuming"] > 0 || it.Cov["lookahead_evals"] > 0 {
			c.run.Nontrivial(id)
		}
		c.run.Sample(map[string]any{"grammar": cs.text, "entry": e.ruleName(cs.g), "input": e.input, "reference_accepts": refOK, "reference_prefix": refEnd}, 4)
	}
	f.run(cases)
	c.run.Count("non_first_entries_distinct", len(entriesSeen))
	// every operator must have been seen both succeeding and failing
	var need []string
	for _, op := range []string{"lit", "class", "negclass", "dot", "and", "not", "alt", "seq", "ref", "capture", "pred", "predfn"} {
		need = append(need, "ref_"+op+":ok", "ref_"+op+":fail")
	}
	need = append(need, "ref_query:taken", "ref_query:skipped", "ref_rep:zero", "ref_rep:many", "ref_nil", "ref_state_change", "ref_action_reached", "ref_lit_matched_other_case", "non_first_entry_evaluations")
	sort.Strings(need)
	requireCov(c, need...)
	c.run.Rule = "cases: random well-formed grammars (half from the all-operator profile: 1-7 rules, depth<=4; a third shared-prefix grammars whose alternatives call the same rules; a sixth wide-choice grammars; every operator of the .peg language incl. semantic predicates, state changes, case-insensitive literals/classes, negated classes, empty alternatives), printed with random spelling variants, run through the real peg (default options) and the Go compiler; " +
		"inputs: derivation walks, mutations, strings over the grammar's boundary runes, empty input; entries: Parse() and Parse(rule) for every other rule; memo on and off. Oracle: verdict and consumed prefix of the reference PEG interpreter. " +
		"distinct_nontrivial = distinct (grammar text, entry, input) on which the reference backtracked after consuming input or evaluated a lookahead."
	c.run.Assume("grammars are well-formed by gram's own syntactic analysis (no left recursion through any operator, no */+ over a possibly-empty operand)")
	c.run.Assume("inputs <= 64 runes; reference step limit 2e6 (cases above it are dropped and counted)")
}
