package main

import (
	"fmt"
	"math/rand"
	"os"
	"strings"

	"verif/internal/corpus"
	"verif/internal/gram"
	"verif/internal/ref"
	"verif/internal/report"
)

// variant = one peg option set.
type variant struct {
	name   string
	opts   []string
	noast  bool
	inline bool
	sw     bool
}

var (
	vPlain  = variant{name: "plain"}
	vInline = variant{name: "inline", opts: []string{"-inline"}, inline: true}
	vSwitch = variant{name: "switch", opts: []string{"-switch"}, sw: true}
	vBoth   = variant{name: "both", opts: []string{"-inline", "-switch"}, inline: true, sw: true}
	vNoast  = variant{name: "noast", opts: []string{"-noast"}, noast: true}
	vNI     = variant{name: "noastinline", opts: []string{"-noast", "-inline"}, noast: true, inline: true}
	vNS     = variant{name: "noastswitch", opts: []string{"-noast", "-switch"}, noast: true, sw: true}
	vNB     = variant{name: "noastboth", opts: []string{"-noast", "-inline", "-switch"}, noast: true, inline: true, sw: true}
)

var combos4 = []variant{vPlain, vInline, vSwitch, vBoth}
var combos8 = []variant{vPlain, vInline, vSwitch, vBoth, vNoast, vNI, vNS, vNB}

// config = variant + run-time options of the generated parser.
type config struct {
	name      string
	v         variant
	memo      bool
	size      int
	u         string
	pretty    bool
	treeFirst bool // AST()/printers before Execute()
}

type entry struct {
	rule  int // -1: Parse() without argument (first rule)
	input string
}

func (e entry) ruleName(g *gram.Grammar) string {
	if e.rule < 0 {
		return g.Rules[0].Name
	}
	return g.Rules[e.rule].Name
}

type gcase struct {
	id      int
	g       *gram.Grammar
	entries []entry
	inline  bool   // action code must also compile under -noast ("inline" action mode)
	// blankActs: every fourth action of the grammar has no code at all ("{ }", a marker): it still is an action of the
	// derivation and records its token (only for checks that do not compare the action trace)
	blankActs bool
	rawText   string // replay: use this grammar text verbatim (package clause renamed) instead of printing the AST
	text    string
	extra   map[string]any
}

func (c *gcase) printOpts(pkg string, v *rand.Rand) gram.PrintOpts {
	o := gram.PrintOpts{Package: pkg, State: corpus.StateBlock, V: v}
	if c.inline {
		hasCap := c.g.Count(gram.KCapture) > 0
		o.ActionCode = func(id int) string {
			// a '%' in the action text: the generator must copy user code verbatim (it is not a format string)
			pct := ""
			if id%3 == 1 {
				pct = fmt.Sprintf("; p.End += %d %% 1", id+2)
			}
			if hasCap {
				return fmt.Sprintf("p.actI(%d, text)%s", id, pct)
			}
			return fmt.Sprintf("p.actN(%d)%s", id, pct)
		}
	}
	if c.blankActs && !c.inline {
		o.ActionCode = func(id int) string {
			if id%4 == 2 {
				return ""
			}
			return fmt.Sprintf("p.act(%d, text, begin, end)", id)
		}
	}
	return o
}

func ruleNames(g *gram.Grammar) []string {
	n := make([]string, len(g.Rules))
	for i, r := range g.Rules {
		n[i] = r.Name
	}
	return n
}

// family drives the corpus engine for the properties that compare generated parsers with the reference
// interpreter: builds cases in batches, runs every (case, entry) under every config, calls judge.
type family struct {
	c             *ctx
	tag           string
	race          bool
	configs       []config
	variantSeed   bool // print grammars with random spelling variants (C10's monitor 1 rides along)
	batch         int
	stdout        bool
	refLimit      int
	prepareReplay func(cs *gcase)
	// history: additionally run all first-rule inputs of a case on ONE reused instance (Buffer=in; Reset(); Parse())
	// under these configs and require every step to equal the fresh-instance result
	history []string
	// reinit: the same histories once more with Init(options...) called again between the inputs instead of Reset()
	// (the other way of reusing a parser object; every parse after an Init is a parse the properties speak about)
	reinit bool
	// pairs: under these configs, consecutive first-rule inputs run on TWO instances initialised from the same option
	// values (Size 64); the first instance is inspected only after the second has parsed
	pairs []string
	// retries: under these configs (never -inline ones), some inputs are parsed on ONE instance without Reset from
	// several entry rules in turn (rules the reference rejects first, then one it accepts): after failed attempts
	// a successful Parse(rule) must give the reference's verdict and token sequence
	retries   []string
	// retryEqual: two of the retries configs (memoising / not) whose attempts must agree one by one — verdict, error
	// token and message of every failed attempt, tokens of the successful one (memo table and furthest token both
	// live on through the attempts of one instance)
	retryEqual [2]string
	maxDepth  int // drop cases whose derivation nests deeper than this many rule applications (0 = no bound)
	stateCode func(cs *gcase) func(int) string
	noexec    bool
	// judge is called once per (case, entry) with the reference evaluation and the results by config name.
	judge func(cs *gcase, e entry, it *ref.Interp, refOK bool, refEnd int, res map[string]*corpus.Res)
	// onJob lets the property look at the generation result of each package (C08 style observations).
	onJob    func(cs *gcase, v variant, j *corpus.Job)
	excluded []string
	// stats
	pkgs, genFail, compFail, refOver, fatal int
}

func (f *family) variants() []variant {
	seen := map[string]bool{}
	var vs []variant
	for _, c := range f.configs {
		if !seen[c.v.name] {
			seen[c.v.name] = true
			vs = append(vs, c.v)
		}
	}
	return vs
}

func pkgName(caseID int, v variant) string { return fmt.Sprintf("c%dv%s", caseID, v.name) }

func (f *family) run(cases []*gcase) {
	if f.c.replay != "" {
		// --replay: the recorded witness replaces the generated workload
		cases = []*gcase{replayCase(f.c)}
		if f.prepareReplay != nil {
			f.prepareReplay(cases[0])
		}
	}
	if f.c.replay == "" {
		// committed regression witnesses of this property (inputs on which repaired defects used to show) always run
		cases = append(cases, regressionCases(f.c, len(cases), f.prepareReplay)...)
	}
	if f.batch == 0 {
		f.batch = 120
	}
	peg, err := f.c.env.BuildPeg(false)
	if err != nil {
		die("%v", err)
	}
	vs := f.variants()
	for lo := 0; lo < len(cases); lo += f.batch {
		hi := min(lo+f.batch, len(cases))
		f.runBatch(peg, cases[lo:hi], vs, lo/f.batch)
	}
	f.c.run.Count("packages_generated", f.pkgs)
	f.c.run.Count("packages_generation_failed", f.genFail)
	f.c.run.Count("packages_not_compiling", f.compFail)
	f.c.run.Count("cases_dropped_ref_step_limit", f.refOver)
	f.c.run.Count("child_process_deaths", f.fatal)
}

func (f *family) runBatch(peg string, cases []*gcase, vs []variant, bno int) {
	cp := corpus.New(f.c.env, peg, f.race, fmt.Sprintf("%s-%d", f.tag, bno))
	defer cp.Remove()
	for _, cs := range cases {
		for _, v := range vs {
			pkg := pkgName(cs.id, v)
			var vr *rand.Rand
			if f.variantSeed {
				vr = rand.New(rand.NewSource(f.c.env.Seed*1000003 + int64(cs.id)*31 + int64(len(v.name))))
			}
			po := cs.printOpts(pkg, vr)
			if f.stateCode != nil {
				po.StateCode = f.stateCode(cs)
			}
			text := gram.PrintGrammar(cs.g, po)
			if cs.rawText != "" {
				text = pkgClause.ReplaceAllString(cs.rawText, "package "+pkg)
			}
			if v.name == vs[0].name {
				cs.text = text
			}
			allU := false
			for _, cf := range f.configs {
				if cf.u != "" && cf.u != "uint32" {
					allU = true
				}
			}
			cp.Add(&corpus.Job{Pkg: pkg, Text: text, Opts: v.opts, NoAST: v.noast, RuleNames: ruleNames(cs.g),
				HasActions: cs.g.Count(gram.KAction) > 0, AllU: allU})
		}
	}
	if err := cp.Build(); err != nil {
		die("corpus build: %v", err)
	}
	f.pkgs += len(cp.Jobs)
	f.genFail += cp.GenFailed
	f.compFail += cp.CompFailed
	for _, cs := range cases {
		// a grammar whose parser builds under one option set but not under another: the options changed more than speed
		built, failed := "", ""
		var failedJob *corpus.Job
		for _, v := range vs {
			if j := cp.Job(pkgName(cs.id, v)); j.Compiled {
				built = v.name
			} else {
				failed, failedJob = v.name, j
			}
		}
		if built != "" && failed != "" {
			why := failedJob.CompErr
			if failedJob.GenExit != 0 || len(failedJob.GenOut) == 0 {
				why = fmt.Sprintf("peg exit %d: %s", failedJob.GenExit, failedJob.GenStderr)
			}
			f.c.run.Violate("build:"+failed+":"+report.Hash(failedJob.Text), fmt.Sprintf("the parser for this grammar builds with options '%s' but not with '%s': %s", built, failed, firstLine(strings.TrimSpace(why))),
				map[string]any{"grammar": failedJob.Text, "options": failedJob.Opts, "error": why})
		}
		for _, v := range vs {
			j := cp.Job(pkgName(cs.id, v))
			if f.onJob != nil {
				f.onJob(cs, v, j)
			} else if !j.Compiled {
				// a package that cannot be generated or compiled is C08's business; other properties count it and
				// report it as a violation of their own only through the missing results (inconclusive if frequent).
				f.c.run.Count("excluded_packages", 1)
				why := j.CompErr
				if j.GenExit != 0 || len(j.GenOut) == 0 {
					why = fmt.Sprintf("peg exit %d: %s", j.GenExit, j.GenStderr)
				}
				if os.Getenv("VERIF_DEBUG") != "" {
					fmt.Fprintf(os.Stderr, "EXCLUDED %s: %s\n%s\n", j.Pkg, why, j.Text)
				}
				f.excluded = append(f.excluded, why)
			}
		}
	}
	// reference evaluation first: inputs on which plain PEG evaluation (no memoisation) explodes are dropped before
	// they reach the real parsers (a -noast or DisableMemoize parser would need the same exponential time)
	type refRes struct {
		it  *ref.Interp
		ok  bool
		end int
	}
	refs := make([][]refRes, len(cases))
	for ci, cs := range cases {
		refs[ci] = make([]refRes, len(cs.entries))
		for ei, e := range cs.entries {
			it := ref.New(cs.g, e.input)
			it.Limit = 400000
			if f.refLimit > 0 {
				it.Limit = f.refLimit
			}
			ok, end := it.Parse(e.ruleName(cs.g))
			refs[ci][ei] = refRes{it, ok, end}
		}
	}
	// requests
	var reqs []corpus.Req
	type key struct{ ci, ei, cfi int }
	where := map[key]int{}
	for ci, cs := range cases {
		for ei, e := range cs.entries {
			if refs[ci][ei].it.Over || (f.maxDepth > 0 && refs[ci][ei].it.MaxDepth > f.maxDepth) {
				continue
			}
			for cfi, cf := range f.configs {
				if cf.v.inline && e.rule > 0 {
					continue // under -inline only the first rule is guaranteed to have a slot
				}
				where[key{ci, ei, cfi}] = len(reqs)
				reqs = append(reqs, corpus.Req{Pkg: pkgName(cs.id, cf.v), Entry: e.rule, In: []byte(e.input), Memo: cf.memo, Size: cf.size, U: cf.u, Pretty: cf.pretty, Stdout: f.stdout, NoExec: f.noexec, TreeFirst: cf.treeFirst})
			}
		}
	}
	type hkey struct{ ci, cfi int }
	hwhere := map[hkey]int{}
	hentries := map[int][]int{}
	for ci, cs := range cases {
		for cfi, cf := range f.configs {
			use := false
			for _, h := range f.history {
				use = use || h == cf.name
			}
			if !use {
				continue
			}
			var hb [][]byte
			var idx []int
			for ei, e := range cs.entries {
				if e.rule < 0 && !refs[ci][ei].it.Over && (f.maxDepth == 0 || refs[ci][ei].it.MaxDepth <= f.maxDepth) {
					hb = append(hb, []byte(e.input))
					idx = append(idx, ei)
					if ei%3 == 1 {
						// the same input once more, right away: Buffer unchanged between two Resets
						hb = append(hb, []byte(e.input))
						idx = append(idx, ei)
					}
				}
			}
			if len(hb) < 2 {
				continue
			}
			hentries[ci] = idx
			hwhere[hkey{ci, cfi}] = len(reqs)
			reqs = append(reqs, corpus.Req{Pkg: pkgName(cs.id, cf.v), Mode: "history", Entry: -1, Hist: hb, Memo: cf.memo, Size: cf.size, U: cf.u, Pretty: cf.pretty, NoExec: f.noexec})
			if f.reinit {
				hwhere[hkey{ci, cfi + 1000}] = len(reqs)
				reqs = append(reqs, corpus.Req{Pkg: pkgName(cs.id, cf.v), Mode: "history", Entry: -1, Hist: hb, Memo: cf.memo, Size: cf.size, U: cf.u, Pretty: cf.pretty, NoExec: f.noexec, Reinit: true})
			}
		}
	}
	type pkey struct{ ci, cfi, ea, eb int }
	pwhere := map[pkey]int{}
	for ci, cs := range cases {
		for cfi, cf := range f.configs {
			use := false
			for _, h := range f.pairs {
				use = use || h == cf.name
			}
			if !use {
				continue
			}
			prev := -1
			for ei, e := range cs.entries {
				if e.rule >= 0 || refs[ci][ei].it.Over {
					continue
				}
				if prev >= 0 && ei%3 == 0 {
					pwhere[pkey{ci, cfi, prev, ei}] = len(reqs)
					reqs = append(reqs, corpus.Req{Pkg: pkgName(cs.id, cf.v), Mode: "pair", Entry: -1, In: []byte(cs.entries[prev].input), Hist: [][]byte{[]byte(e.input)}, Memo: cf.memo, Size: 64, Shared: true, NoExec: f.noexec})
				}
				prev = ei
			}
		}
	}
	type rkey struct{ ci, cfi, ei int }
	type rplan struct {
		at    int
		rules []int
		refs  []refRes
	}
	rwhere := map[rkey]rplan{}
	for ci, cs := range cases {
		for cfi, cf := range f.configs {
			use := false
			for _, h := range f.retries {
				use = use || h == cf.name
			}
			if !use || cf.v.inline || len(cs.g.Rules) < 2 {
				continue
			}
			rr := rand.New(rand.NewSource(int64(cs.id) * 7919)) // the same plan under every config
			planned := 0
			for ei, e := range cs.entries {
				if planned >= 6 || refs[ci][ei].it.Over || len(e.input) == 0 {
					continue
				}
				// the reference's view of every rule on this input
				var failing, accepting []int
				all := map[int]refRes{}
				bad := false
				for ri, rl := range cs.g.Rules {
					it := ref.New(cs.g, e.input)
					it.Limit = 200000
					ok, end := it.Parse(rl.Name)
					if it.Over || (f.maxDepth > 0 && it.MaxDepth > f.maxDepth) {
						bad = true
						break
					}
					all[ri] = refRes{it, ok, end}
					if ok {
						accepting = append(accepting, ri)
					} else if it.Cov["lit:ok"]+it.Cov["class:ok"]+it.Cov["negclass:ok"]+it.Cov["dot:ok"] > 0 {
						failing = append(failing, ri) // failed after matching something
					}
				}
				if bad || len(failing) == 0 || len(accepting) == 0 {
					continue
				}
				rr.Shuffle(len(failing), func(i, j int) { failing[i], failing[j] = failing[j], failing[i] })
				if len(failing) > 3 {
					failing = failing[:3]
				}
				// the first failing rule is tried twice in a row (its failure is in the memo table the second time)
				order := append(append([]int{failing[0]}, failing...), accepting[rr.Intn(len(accepting))])
				pl := rplan{at: len(reqs), rules: order}
				for _, ri := range order {
					pl.refs = append(pl.refs, all[ri])
				}
				rwhere[rkey{ci, cfi, ei}] = pl
				reqs = append(reqs, corpus.Req{Pkg: pkgName(cs.id, cf.v), Mode: "retry", In: []byte(e.input), HistEntry: order, Memo: cf.memo, Size: cf.size, U: cf.u, NoExec: true})
				planned++
			}
		}
	}
	results, err := cp.Run(reqs, corpus.RunOpts{})
	if err != nil {
		die("corpus run: %v", err)
	}
	for rk, pl := range rwhere {
		rs := results[pl.at]
		cs := cases[rk.ci]
		cf := f.configs[rk.cfi]
		if rs.Lost {
			continue
		}
		in := cs.entries[rk.ei].input
		id := report.Hash(cs.text, "retry", cf.name, in, fmt.Sprint(pl.rules))
		var names []string
		for _, ri := range pl.rules {
			names = append(names, cs.g.Rules[ri].Name)
		}
		w := func(extra map[string]any) map[string]any {
			m := map[string]any{"grammar": cs.text, "config": cf.name, "input": in, "entry_rules_in_turn": names, "note": "one instance, no Reset between the attempts"}
			for k, v := range extra {
				m[k] = v
			}
			return m
		}
		if rs.Fatal != "" || rs.Panic != "" {
			f.c.run.Violate("retry-crash:"+id, "Parse(rule) attempts in turn on one instance crashed: "+rs.Panic+firstLine(rs.Fatal), w(nil))
			continue
		}
		for k := range rs.Hist {
			if k >= len(pl.refs) {
				break
			}
			got, want := &rs.Hist[k], pl.refs[k]
			f.c.run.Eval(1)
			if got.Panic != "" {
				f.c.run.Violate("retry-crash:"+id, fmt.Sprintf("attempt %d (rule %s) panicked: %s", k+1, names[k], got.Panic), w(nil))
				break
			}
			if got.OK != want.ok {
				f.c.run.Violate("retry:"+id, fmt.Sprintf("attempt %d (Parse(rule %s) after %d failed attempts on the same instance): verdict %v, PEG semantics %v", k+1, names[k], k, got.OK, want.ok), w(map[string]any{"got_tokens": tokStrings(got.Toks)}))
				break
			}
			if got.OK {
				f.c.run.Count("retry_success_after_failed_attempts", 1)
				if cf.v.noast {
					break // no token list without an AST: the verdict of every attempt is the observable
				}
				if g, wt := tokStrings(got.Toks), refTokStrings(want.it.Toks); g != wt {
					f.c.run.Violate("retry:"+id, fmt.Sprintf("Parse(rule %s) after %d failed attempts on the same instance: the token sequence is not the derivation's", names[k], k), w(map[string]any{"got_tokens": g, "ref_tokens": wt}))
				}
				break
			}
		}
	}
	if f.retryEqual[0] != "" {
		ca, cb := -1, -1
		for cfi, cf := range f.configs {
			if cf.name == f.retryEqual[0] {
				ca = cfi
			}
			if cf.name == f.retryEqual[1] {
				cb = cfi
			}
		}
		for rk, pa := range rwhere {
			if rk.cfi != ca {
				continue
			}
			pb, ok := rwhere[rkey{rk.ci, cb, rk.ei}]
			if !ok || fmt.Sprint(pa.rules) != fmt.Sprint(pb.rules) {
				continue
			}
			ra, rb := results[pa.at], results[pb.at]
			if ra.Lost || rb.Lost || ra.Panic != "" || rb.Panic != "" || ra.Fatal != "" || rb.Fatal != "" {
				continue
			}
			cs := cases[rk.ci]
			in := cs.entries[rk.ei].input
			var names []string
			for _, ri := range pa.rules {
				names = append(names, cs.g.Rules[ri].Name)
			}
			key := func(r *corpus.Res) string {
				if r.OK {
					return "OK " + tokStrings(r.Toks)
				}
				return fmt.Sprintf("FAIL max=%v msg=%q", r.Max, r.Err)
			}
			for k := 0; k < len(ra.Hist) && k < len(rb.Hist); k++ {
				f.c.run.Eval(1)
				f.c.run.Count("retry_attempts_compared_across_configs", 1)
				if ga, gb := key(&ra.Hist[k]), key(&rb.Hist[k]); ga != gb {
					f.c.run.Violate("retry-equal:"+report.Hash(cs.text, "retry", in, fmt.Sprint(pa.rules)),
						fmt.Sprintf("attempt %d (Parse(rule %s)) of several on one instance: %s and %s differ", k+1, names[k], f.retryEqual[0], f.retryEqual[1]),
						map[string]any{"grammar": cs.text, "input": in, "entry_rules_in_turn": names, f.retryEqual[0]: ga, f.retryEqual[1]: gb, "note": "one instance per config, no Reset between the attempts"})
					break
				}
			}
		}
	}
	for pk, ri := range pwhere {
		pr := results[ri]
		cs := cases[pk.ci]
		cf := f.configs[pk.cfi]
		if pr.Lost {
			continue
		}
		id := report.Hash(cs.text, "pair", cf.name, cs.entries[pk.ea].input, cs.entries[pk.eb].input)
		if pr.Fatal != "" || pr.Panic != "" || len(pr.Hist) != 2 {
			f.c.run.Violate("pair-crash:"+id, "two instances initialised from the same option values crashed: "+pr.Panic+firstLine(pr.Fatal), map[string]any{"grammar": cs.text, "inputs": []string{cs.entries[pk.ea].input, cs.entries[pk.eb].input}})
			continue
		}
		for k, ei := range []int{pk.ea, pk.eb} {
			fi, ok := where[key{pk.ci, ei, pk.cfi}]
			if !ok || results[fi].Lost {
				continue
			}
			f.c.run.Eval(1)
			f.c.run.Count("paired_instance_results", 1)
			fresh := results[fi]
			// Size differs from the fresh run by design; everything observable must not
			if got, want := resKey(&pr.Hist[k]), resKey(&fresh); got != want {
				f.c.run.Violate("pair:"+id, fmt.Sprintf("of two instances initialised from the same option values, instance %d (inspected after both had parsed) differs from a parser run alone", k+1),
					map[string]any{"grammar": cs.text, "config": cf.name, "input_a": cs.entries[pk.ea].input, "input_b": cs.entries[pk.eb].input, "paired": got, "alone": want})
				break
			}
		}
	}
	if cp.WatchdogHits > 0 {
		f.c.run.Incon(fmt.Sprintf("%d child processes were stopped by the wall-clock watchdog or killed from outside (not by this check's limits)", cp.WatchdogHits))
	}
	f.c.run.Max("peak_child_resident_mb", cp.PeakMB)
	if cp.Abandoned > 0 {
		f.c.run.Count("requests_not_run_after_repeated_child_deaths", cp.Abandoned)
	}
	for hk, ri := range hwhere {
		hr := results[ri]
		cs := cases[hk.ci]
		cf := f.configs[hk.cfi%1000]
		if hk.cfi >= 1000 {
			cf.name += "+reinitialised"
			f.c.run.Count("histories_with_Init_called_again_between_inputs", 1)
		}
		if hr.Lost {
			continue
		}
		id := report.Hash(cs.text, "history", cf.name)
		if hr.Fatal != "" || hr.Panic != "" || len(hr.Hist) != len(hentries[hk.ci]) {
			f.c.run.Violate("history-crash:"+id, "a reused parser (Buffer=in; Reset(); Parse()) crashed: "+hr.Panic+firstLine(hr.Fatal), map[string]any{"grammar": cs.text, "config": cf.name})
			continue
		}
		// a tree returned by AST() belongs to the caller: held while the parser went on to later inputs, it must
		// still be the tree it was
		if len(hr.LateShape) == len(hr.Hist) {
			for k := range hr.Hist {
				if !hr.Hist[k].OK {
					continue
				}
				f.c.run.Eval(1)
				f.c.run.Count("trees_held_across_later_parses", 1)
				if hr.LateShape[k] != hr.Hist[k].Shape {
					f.c.run.Violate("history-tree:"+id, fmt.Sprintf("the tree AST() returned for step %d changed after the parser was reused for later inputs (config %s)", k, cf.name),
						map[string]any{"grammar": cs.text, "config": cf.name, "input": cs.entries[hentries[hk.ci][k]].input, "tree_when_returned": hr.Hist[k].Shape, "same_tree_after_later_parses": hr.LateShape[k]})
					break
				}
			}
		}
		for k, ei := range hentries[hk.ci] {
			fi, ok := where[key{hk.ci, ei, hk.cfi % 1000}]
			if !ok || results[fi].Lost {
				continue
			}
			f.c.run.Eval(1)
			f.c.run.Count("reused_instance_steps", 1)
			fresh := results[fi]
			if got, want := resKey(&hr.Hist[k]), resKey(&fresh); got != want {
				var hist []string
				for _, x := range hentries[hk.ci][:k+1] {
					hist = append(hist, cs.entries[x].input)
				}
				f.c.run.Violate("history:"+id, fmt.Sprintf("step %d on one reused parser (config %s) differs from a fresh parser on the same input", k, cf.name),
					map[string]any{"grammar": cs.text, "config": cf.name, "history": hist, "input": cs.entries[ei].input, "reused": got, "fresh": want})
				break
			}
		}
		// an error returned for one input and kept by the caller still says the same after the parser went on to other inputs
		if k, got, want, bad := keptErrorChanged(hr.Hist, hr.LateErr); bad {
			var hist []string
			for _, x := range hentries[hk.ci] {
				hist = append(hist, cs.entries[x].input)
			}
			f.c.run.Violate("kept-error:"+id, fmt.Sprintf("the error returned for step %d reads differently once the same parser has been reset with later inputs (config %s)", k, cf.name),
				map[string]any{"grammar": cs.text, "config": cf.name, "history": hist, "step": k, "message_when_returned": want, "message_after_the_history": got})
		} else if len(hr.LateErr) > 0 {
			f.c.run.Count("errors_kept_across_later_inputs", len(hr.LateErr))
		}
	}
	for ci, cs := range cases {
		for ei, e := range cs.entries {
			it, ok, end := refs[ci][ei].it, refs[ci][ei].ok, refs[ci][ei].end
			if it.Over {
				f.refOver++
				continue
			}
			if f.maxDepth > 0 && it.MaxDepth > f.maxDepth {
				f.c.run.Count("cases_dropped_nesting_bound", 1)
				continue
			}
			m := map[string]*corpus.Res{}
			for cfi, cf := range f.configs {
				if i, found := where[key{ci, ei, cfi}]; found && !results[i].Lost {
					r := results[i]
					if r.Fatal != "" {
						f.fatal++
					}
					m[cf.name] = &r
				}
			}
			f.judge(cs, e, it, ok, end, m)
		}
	}
	if len(cp.RaceReports) > 0 {
		for _, rr := range cp.RaceReports {
			f.c.run.Violate("race:"+report.Hash(dedupeRace(rr)), "data race reported while running generated parsers", map[string]any{"report": rr})
		}
	}
}

// dedupeRace strips addresses and goroutine numbers from a race report so that equal stacks hash equally.
func dedupeRace(s string) string {
	var sb strings.Builder
	for _, l := range strings.Split(s, "\n") {
		l = strings.TrimSpace(l)
		if strings.HasPrefix(l, "/") || strings.Contains(l, "()") {
			if i := strings.Index(l, " +0x"); i > 0 {
				l = l[:i]
			}
			sb.WriteString(l + "\n")
		}
	}
	return sb.String()
}

// witness builds the replayable description of one case/entry.
func witness(cs *gcase, e entry, extra map[string]any) map[string]any {
	w := map[string]any{"grammar": cs.text, "entry_rule": e.ruleName(cs.g), "entry_index": e.rule, "input": e.input, "input_runes": fmt.Sprintf("%q", []rune(e.input))}
	for k, v := range extra {
		w[k] = v
	}
	return w
}

func tokStrings(ts []corpus.Tk) string {
	p := make([]string, len(ts))
	for i, t := range ts {
		p[i] = t.String()
	}
	return strings.Join(p, " ")
}

func refTokStrings(ts []ref.Tok) string {
	p := make([]string, len(ts))
	for i, t := range ts {
		p[i] = t.String()
	}
	return strings.Join(p, " ")
}

// entriesFor picks inputs for a case: nIn inputs for the first rule and (optionally) nOther for each other rule.
func entriesFor(r *rand.Rand, g *gram.Grammar, nIn int, others bool, nOther int, alphabet []rune) []entry {
	var es []entry
	for _, in := range gram.Inputs(r, g, g.Rules[0].Name, nIn, alphabet) {
		es = append(es, entry{-1, in})
	}
	if others {
		for i := 1; i < len(g.Rules); i++ {
			for _, in := range gram.Inputs(r, g, g.Rules[i].Name, nOther, alphabet) {
				es = append(es, entry{i, in})
			}
		}
	}
	return es
}

// tractable drops inputs on which plain PEG evaluation of the grammar explodes (reference step limit), so that
// parsers run without memoisation are not sent into exponential backtracking.
func tractable(g *gram.Grammar, start string, inputs []string) []string {
	var out []string
	for _, in := range inputs {
		it := ref.New(g, in)
		it.Limit = 400000
		it.Parse(start)
		if !it.Over {
			out = append(out, in)
		}
	}
	return out
}

// keptErrorChanged compares the message every failed step of a history had when it was returned with the message
// the same error value gives after the whole history (late: one entry per failed step, in order).
func keptErrorChanged(hist []corpus.Res, late []string) (step int, got, want string, bad bool) {
	j := 0
	for k := range hist {
		if hist[k].OK || hist[k].Panic != "" || hist[k].ErrType == "" {
			continue
		}
		if j >= len(late) {
			return
		}
		if late[j] != hist[k].Err {
			return k, late[j], hist[k].Err, true
		}
		j++
	}
	return
}
