package main

import (
	"fmt"
	"math/rand"
	"os"
	"path/filepath"
	"regexp"
	"strconv"
	"strings"

	"verif/internal/corpus"
	"verif/internal/gram"
	"verif/internal/ref"
)

// shippedG describes one of the example grammars shipped with pointlander/peg.
type shippedG struct {
	name       string
	pegPath    string // relative to the repository
	pkg        string
	typ        string
	companions []string
	samples    []string
}

var cSamples = []string{
	"int a() {\n\t(es);\n\t1++;\n\t1+1;\n\ta+1;\n\t(a)+1;\n\ta->x;\n\treturn 0;\n}",
	"int a() {\n\tif (a) { return (a); }\n\n\treturn (0);\n\treturn a+b;\n\treturn (a+b);\n\treturn (a)+0;\n}",
	"int a(){return (int)0;}", "int a(){(struct m*)(rsp);}", "/** empty is valid. */  ",
	"#include <stdio.h>\nstatic const char *s = \"x\\n\";\nint main(int argc, char **argv) { for (int i = 0; i < argc; i++) { printf(\"%s\", argv[i]); } return 0; }\n",
	"typedef struct { int x, y; } point; point p = { .x = 1, .y = 2 };\nunsigned long f(point *q) { return q->x * 3UL + sizeof(point); }\n",
}

func shippedGrammars(repo string) []shippedG {
	rd := func(p string) string {
		b, err := os.ReadFile(filepath.Join(repo, p))
		if err != nil {
			die("shipped file %s: %v", p, err)
		}
		return string(b)
	}
	return []shippedG{
		{name: "calculator", pegPath: "grammars/calculator/calculator.peg", pkg: "calculator", typ: "Calculator", companions: []string{"grammars/calculator/calculator.go"},
			samples: []string{"( 1 - -3 ) / 3 + 2 * ( 3 + -4 ) + 3 % 2^2", "1+2*3", "2^3^2", "-(4)", "10 % 3 / ( 7 )", "1"}},
		{name: "calculatorast", pegPath: "grammars/calculatorast/calculator.peg", pkg: "calculatorast", typ: "Calculator", companions: []string{"grammars/calculatorast/calculator.go"},
			samples: []string{"( 1 - -3 ) / 3 + 2 * ( 3 + -4 ) + 3 % 2^2", "1+2*3", "2^3^2", "7"}},
		{name: "c", pegPath: "grammars/c/c.peg", pkg: "c", typ: "C", samples: cSamples},
		{name: "java", pegPath: "grammars/java/java_1_7.peg", pkg: "java", typ: "Java", samples: []string{rd("grammars/java/example-1.java"), rd("grammars/java/example-2.java"),
			"public class HelloWorld {\n\tpublic static void main(String[] args) {\n\t\tSystem.out.println(\"Hello, World\");\n\t}\n}\n"}},
		{name: "fexl", pegPath: "grammars/fexl/fexl.peg", pkg: "fexl", typ: "Fexl", samples: []string{rd("grammars/fexl/doc/try.fxl"), "\\x = 1\nx\n"}},
		{name: "long", pegPath: "grammars/longtest/long.peg", pkg: "longtest", typ: "Long", samples: []string{"\"\"", "\"XXXXXXXXXXXX\"", "\"" + strings.Repeat("X", 3000) + "\""}},
		{name: "peg", pegPath: "peg.peg", pkg: "main", typ: "Peg", samples: []string{rd("peg.peg"), rd("grammars/calculator/calculator.peg"), rd("grammars/fexl/fexl.peg"), rd("cmd/peg-bootstrap/bootstrap.peg")}},
	}
}

var pkgClause = regexp.MustCompile(`(?m)^package[ \t]+\w+`)

// job builds the corpus job for one shipped grammar under one option set; the package is renamed so that several
// variants can be linked into one runner.
func (s shippedG) job(repo string, v variant) *corpus.Job {
	b, err := os.ReadFile(filepath.Join(repo, s.pegPath))
	if err != nil {
		die("shipped grammar %s: %v", s.pegPath, err)
	}
	pkg := "s" + s.name + v.name
	text := pkgClause.ReplaceAllString(string(b), "package "+pkg)
	extra := map[string]string{}
	for _, cpath := range s.companions {
		cb, err := os.ReadFile(filepath.Join(repo, cpath))
		if err != nil {
			die("companion %s: %v", cpath, err)
		}
		extra[filepath.Base(cpath)] = pkgClause.ReplaceAllString(string(cb), "package "+pkg)
	}
	return &corpus.Job{Pkg: pkg, Text: text, Opts: v.opts, Type: s.typ, Bare: true, Extra: extra}
}

// treeFromTokens rebuilds the syntax tree from a post-order token list (non-empty tokens only) and prints it the way
// the generated printers are documented to print it: one node per line, indented by depth, rule name and quoted text.
func treeFromTokens(toks []corpus.Tk, in []rune) string {
	type nd struct {
		t    corpus.Tk
		kids []*nd
	}
	var stack []*nd
	for _, t := range toks {
		if t.B == t.E {
			continue
		}
		n := &nd{t: t}
		i := len(stack)
		for i > 0 && stack[i-1].t.B >= t.B && stack[i-1].t.E <= t.E {
			i--
		}
		n.kids = append(n.kids, stack[i:]...)
		stack = append(stack[:i], n)
	}
	var sb strings.Builder
	var pr func(n *nd, d int)
	pr = func(n *nd, d int) {
		sb.WriteString(strings.Repeat(" ", d))
		b, e := int(n.t.B), int(n.t.E)
		if e > len(in) {
			e = len(in)
		}
		if b > e {
			b = e
		}
		sb.WriteString(n.t.R + " " + strconv.Quote(string(in[b:e])) + "\n")
		for _, k := range n.kids {
			pr(k, d+1)
		}
	}
	// AST() returns the top of the stack: for a successful parse that is the entry rule's node
	if len(stack) > 0 {
		pr(stack[len(stack)-1], 0)
	}
	return sb.String()
}

// hostileFragments: byte strings every Go string may contain.
var hostileFragments = []string{"", "\x00", "a\x00b", "\x80", "\xbf\xbf", "\xe2\x82", "\xf0\x9f\x98", "\xc0\xaf", "\xe0\x80\xaf", "\xed\xa0\x80", "\xed\xbf\xbf", "\xf4\x90\x80\x80", "\xff", "\xfe\xff",
	"\U0001F600", "\U0010FFFF", "\U0010FFFE", "\ufffd", "\ufeff", " ", "é", "\r\n", "\t", "\x7f", "\x1b[0m"}

// hostileInputs derives hostile variants of sample texts: fragments inserted/substituted at random places,
// truncations inside multi-byte sequences, long repetitions.
func hostileInputs(r *rand.Rand, samples []string, n int, long bool, longLen ...int) []string {
	ll := 200000
	if len(longLen) > 0 {
		ll = longLen[0]
	}
	var out []string
	out = append(out, hostileFragments...)
	for len(out) < n {
		s := samples[r.Intn(len(samples))]
		if len(s) > 4000 {
			o := r.Intn(len(s) - 2000)
			s = s[o : o+2000]
		}
		b := []byte(s)
		for k := 1 + r.Intn(3); k > 0; k-- {
			f := hostileFragments[r.Intn(len(hostileFragments))]
			i := 0
			if len(b) > 0 {
				i = r.Intn(len(b) + 1)
			}
			switch r.Intn(5) {
			case 0:
				b = append(b[:i:i], append([]byte(f), b[i:]...)...)
			case 1:
				j := min(len(b), i+1+r.Intn(4))
				b = append(b[:i:i], append([]byte(f), b[j:]...)...)
			case 2:
				b = b[:i]
			case 3:
				if len(b) > 0 {
					b[r.Intn(len(b))] = byte(r.Intn(256))
				}
			case 4:
				j := min(len(b), i+r.Intn(40))
				b = append(b[:j:j], append(append([]byte{}, b[i:j]...), b[j:]...)...)
			}
		}
		out = append(out, string(b))
	}
	if long {
		s := samples[r.Intn(len(samples))]
		if s == "" {
			s = "x"
		}
		for len(s) < ll {
			s += s
		}
		out = append(out, s[:ll], strings.Repeat(hostileFragments[14], ll/2), strings.Repeat("\x80", ll*3/4), strings.Repeat("(", 200)+strings.Repeat(")", 200))
	}
	return out
}

var _ = fmt.Sprint

// grammar reads the shipped grammar back into the AST (through the independent reader), so that inputs can be
// derived from it and the reference interpreter can judge the real-world parsers too.
func (s shippedG) grammar(repo string) *gram.Grammar {
	b, err := os.ReadFile(filepath.Join(repo, s.pegPath))
	if err != nil {
		return nil
	}
	g, err := fromText(string(b))
	if err != nil {
		return nil
	}
	return g
}

// derivedInputs: random derivations from the start rule, and fragments derived from arbitrary rules of the grammar
// (escapes, literals, operators, ...) spliced into the sample texts at random places.
func derivedInputs(r *rand.Rand, g *gram.Grammar, samples []string, n int) []string {
	if g == nil || len(g.Rules) == 0 {
		return nil
	}
	alpha := []rune("abcxyz019 _\n\"'\\u{}();=+-*/<>.,")
	var out []string
	// one derivation through every rule of the grammar (steered towards it, cheap elsewhere): every rule's code is
	// executed by some input, not only the rules the sample files happen to use
	st := gram.NewSteer(g)
	for k, rule := range g.Rules {
		if k > 0 && n < 40 && k%3 != 0 {
			continue
		}
		if via := st.DeriveVia(r, g.Rules[0].Name, rule.Name, alpha); len(via) > 0 {
			out = append(out, string(via))
		}
	}
	for i := 0; i < n; i++ {
		if i%3 == 0 {
			out = append(out, string(gram.DeriveN(r, g, g.Rules[0].Name, alpha, 1500)))
			continue
		}
		frag := string(gram.DeriveN(r, g, g.Rules[r.Intn(len(g.Rules))].Name, alpha, 200))
		s := samples[r.Intn(len(samples))]
		if len(s) > 3000 {
			o := r.Intn(len(s) - 2000)
			s = s[o : o+2000]
		}
		rs := []rune(s)
		at := 0
		if len(rs) > 0 {
			at = r.Intn(len(rs) + 1)
			// prefer a place right after a quote or an operator: that is where lexical rules are entered
			for k := 0; k < 8 && at > 0 && at < len(rs) && !strings.ContainsRune("\"'(=+ ", rs[at-1]); k++ {
				at = r.Intn(len(rs) + 1)
			}
		}
		out = append(out, string(rs[:at])+frag+string(rs[at:]))
	}
	return out
}

// refJudge compares a shipped parser's result with the reference interpreter on the grammar read back from the
// shipped .peg file; "" = agrees (or the reference gave up).
func refJudge(g *gram.Grammar, in string, rr *corpus.Res) string {
	if g == nil {
		return ""
	}
	it := ref.New(g, in)
	it.Limit = 3000000
	ok, _ := it.Parse(g.Rules[0].Name)
	if it.Over || it.MaxDepth > 400 {
		return ""
	}
	if ok != rr.OK {
		return fmt.Sprintf("verdict %v, PEG semantics of the shipped grammar %v", rr.OK, ok)
	}
	if ok && tokStrings(rr.Toks) != refTokStrings(it.Toks) {
		return "the token sequence is not the post-order record of the derivation the shipped grammar defines"
	}
	return ""
}
