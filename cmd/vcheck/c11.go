package main

import (
	"fmt"
	"math/rand"
	"strings"

	"verif/internal/corpus"
	"verif/internal/gram"
	"verif/internal/ref"
	"verif/internal/report"
)

func init() { register("C11", "exploration", c11) }

func c11(c *ctx) {
	n := tierN(c, 240, 4500)
	r := rand.New(rand.NewSource(c.env.Seed))
	var cases []*gcase
	for i := 0; i < n; i++ {
		var g *gram.Grammar
		alpha := []rune("ab\n\nc é😀")
		if i%3 == 0 {
			g = gram.Backtracky(r, alpha)
		} else {
			p := gram.AllOps()
			p.Alphabet = alpha
			p.MinRules, p.LRef, p.WSeq = 2, 8, 8
			g = gram.Random(r, p)
		}
		cs := &gcase{id: i, g: g}
		cs.entries = entriesFor(r, g, 20, false, 0, alpha)
		cases = append(cases, cs)
	}
	cfgs := []config{{name: "memo", v: vPlain, memo: true}, {name: "nomemo", v: vPlain}, {name: "pretty", v: vPlain, memo: true, pretty: true},
		{name: "inline", v: vInline, memo: true}, {name: "switch", v: vSwitch, memo: true}, {name: "both", v: vBoth, memo: true, pretty: true}}
	f := &family{c: c, tag: "c11", configs: cfgs, noexec: true, history: []string{"memo", "both"}, reinit: true}
	f.judge = func(cs *gcase, e entry, it *ref.Interp, refOK bool, refEnd int, res map[string]*corpus.Res) {
		id := report.Hash(cs.text, e.input)
		in := []rune(e.input)
		for _, cf := range cfgs {
			r := res[cf.name]
			if r == nil {
				continue
			}
			c.run.Eval(1)
			w := func() map[string]any {
				return witness(cs, e, map[string]any{"config": cf.name, "ref_verdict": refOK, "ref_furthest_token": refMax(it), "got_verdict": r.OK, "got_error_type": r.ErrType, "got_max_token": fmt.Sprint(r.Max), "got_message": r.Err, "panic": r.Panic, "fatal": r.Fatal})
			}
			key := cf.name + ":" + id
			if m := crashed(r); m != nil {
				c.run.Violate(m.kind+":"+key, m.detail+" (building the result or the error message)", w())
				continue
			}
			if r.OK != refOK {
				c.run.Violate("verdict:"+key, fmt.Sprintf("Parse returned nil=%v but the entry rule matches=%v", r.OK, refOK), w())
				continue
			}
			if r.OK {
				continue
			}
			c.run.Count("rejections_judged", 1)
			if !strings.HasPrefix(r.ErrType, "*") || !strings.Contains(r.ErrType, "parseError") || r.Max == nil {
				c.run.Violate("errtype:"+key, "a failed parse must return a parse error, got "+r.ErrType, w())
				continue
			}
			mt := *r.Max
			if mt.B > mt.E || int(mt.E) > len(in) {
				c.run.Violate("bounds:"+key, fmt.Sprintf("error token %s lies outside the input of %d runes", mt, len(in)), w())
				continue
			}
			if !cf.v.sw {
				if mt.String() != refMax(it) {
					c.run.Violate("furthest:"+key, fmt.Sprintf("error token is %s, the first non-empty token reaching the furthest offset is %s", mt, refMax(it)), w())
					continue
				}
			} else {
				// under -switch alternatives whose first character cannot match are never attempted, so tokens completed
				// inside their leading lookahead are legitimately not seen: the token must still be one that PEG
				// evaluation completes on this input, or the zero token.
				if mt.String() != "Unknown[0,0]" && !it.Completed[ref.Tok{Rule: mt.R, Begin: int(mt.B), End: int(mt.E)}] {
					c.run.Violate("furthest-switch:"+key, fmt.Sprintf("error token %s was never completed by any attempt of the PEG evaluation", mt), w())
					continue
				}
			}
			want := expectedMessage(in, mt.R, int(mt.B), int(mt.E), cf.pretty)
			if r.Err != want {
				c.run.Violate("message:"+key, fmt.Sprintf("message %q, expected %q", r.Err, want), w())
			}
		}
		if !refOK {
			if it.Max.Rule != "" && (it.Max.End-it.Max.Begin >= 2 || strings.ContainsRune(string(in[it.Max.Begin:it.Max.End]), '\n')) {
				c.run.Nontrivial(id)
			}
			if it.Max.Rule == "" {
				c.run.Count("rejected_without_any_token", 1)
			} else {
				if it.Max.Begin > 0 && in[it.Max.Begin-1] == '\n' {
					c.run.Count("token_begins_after_newline", 1)
				}
				if it.Max.End < len(in) && in[it.Max.End] == '\n' {
					c.run.Count("token_ends_at_newline", 1)
				}
				if it.Max.End == len(in) {
					c.run.Count("token_ends_at_end_of_input", 1)
				}
				if strings.ContainsRune(string(in[:it.Max.Begin]), '\n') {
					c.run.Count("token_on_later_line", 1)
				}
			}
			if len(in) == 0 {
				c.run.Count("rejected_empty_input", 1)
			}
			if it.Max.Rule != "" && len(in) > 3 {
				c.run.Sample(map[string]any{"grammar": cs.text, "input": e.input, "furthest_token": refMax(it), "expected_message": expectedMessage(in, it.Max.Rule, it.Max.Begin, it.Max.End, false)}, 3)
			}
		}
	}
	f.run(cases)
	requireCov(c, "rejections_judged", "rejected_without_any_token", "token_begins_after_newline", "token_ends_at_newline", "token_ends_at_end_of_input", "token_on_later_line", "rejected_empty_input")
	c.run.Rule = "cases: all-operator and shared-prefix grammars over an alphabet with newlines, spaces, 2-, 3- and 4-byte runes; inputs as C01; every rejected input is judged under default options (memo on/off, Pretty on/off) and -inline exactly, and under -switch / -inline -switch with the weakened furthest-token rule of DESIGN 6.2. " +
		"Oracle: nil iff the reference accepts; dynamic type is the parser's parse error; its token equals the reference's furthest token (first non-empty completed token, in evaluation order incl. failed branches and lookahead, whose end exceeds all earlier ones; zero token if none) and lies in the input; the message equals 'parse error near <rule> (line L1 symbol C1 - line L2 symbol C2):' + strconv.Quote(runes[b:e]) with L/C recomputed independently (1-based; a newline ends its line); no panic. " +
		"distinct_nontrivial = distinct rejected (grammar, input) whose furthest token spans >=2 runes or a line break."
	c.run.Assume("line/column convention: offset k is on line 1+#newlines before k, column 1+distance from the last newline before k; the end of a token is reported as the position of the rune at its end offset")
}
