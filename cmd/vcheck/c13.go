package main

import (
	"encoding/hex"
	"fmt"
	"math/rand"
	"os"
	"strings"
	"time"

	"verif/internal/corpus"
	"verif/internal/gram"
	"verif/internal/ref"
	"verif/internal/report"
)

func init() { register("C13", "exploration", c13) }

// boundaryCases: a fixed list of small grammars around the ends of the code space, with every input of up to two
// characters over the boundary alphabet (and a few longer ones): terminals whose bounds are U+0000 or U+10FFFF tried in
// the middle, at the last character and AT END OF INPUT (where the generated parser reads its end sentinel, a value
// just outside the code space), alone, after a literal, under * and as one alternative of a choice (-switch).
func boundaryCases(firstID int) []*gcase {
	const max = 0x10FFFF
	neg := func(lo, hi rune) *gram.Expr {
		return &gram.Expr{K: gram.KClass, Neg: true, Items: []gram.Item{{Lo: lo, Hi: hi}}}
	}
	terms := []*gram.Expr{
		gram.Rng(0, 'a'), gram.Rng('x', max), gram.Rng(0, max), gram.Rng(max-1, max), gram.Rng(0, 0), gram.Rng(max, max),
		gram.Lit(string(rune(max))), gram.Lit("\x00"), gram.Lit("a" + string(rune(max))),
		neg(0, 'a'), neg('x', max), neg(1, max-1), gram.Dot(),
		gram.Cls(gram.Item{Lo: 0, Hi: 0}, gram.Item{Lo: 'x', Hi: max}),
	}
	// (no case-insensitive class here: what [[x-\U0010FFFF]] means for letters below 'x' is not defined by the
	// documentation — peg matches the ranges of the upper-cased and of the lower-cased bounds — so the generators
	// keep case-insensitive ranges between letters of one case, see gram.ciItem)
	alpha := []rune{0, 'a', 'x', max, max - 1, 'é', 0xFFFD}
	var inputs []string
	inputs = append(inputs, "")
	for _, a := range alpha {
		inputs = append(inputs, string(a))
		for _, b := range alpha {
			inputs = append(inputs, string([]rune{a, b}))
		}
	}
	inputs = append(inputs, "a\xff", "\xf4\x90\x80\x80", "a\xf4\x8f\xbf", string([]rune{'a', max, max, 0, 'a'}), string([]rune{max, 'a', max}), string([]rune{'a', 'a', 'a', max}))
	var out []*gcase
	for _, t := range terms {
		shapes := []*gram.Expr{
			gram.Seq(gram.Lit("a"), t),
			gram.Seq(gram.Un(gram.KStar, t), gram.Un(gram.KNot, gram.Dot())),
			gram.Seq(gram.Un(gram.KPlus, gram.Alt(gram.Seq(gram.Lit("a"), gram.Un(gram.KQuery, gram.Lit("a"))), t, gram.Lit("\u00e9"))), gram.Un(gram.KNot, gram.Dot())),
			gram.Seq(gram.Un(gram.KCapture, gram.Un(gram.KQuery, gram.Lit("a"))), gram.Un(gram.KNot, t), gram.Un(gram.KQuery, gram.Dot())),
		}
		for _, sh := range shapes {
			g := &gram.Grammar{Rules: []*gram.Rule{{Name: "R0", E: sh}}}
			if !g.WellFormed() {
				continue
			}
			g.Number()
			cs := &gcase{id: firstID + len(out), g: g}
			for _, in := range inputs {
				cs.entries = append(cs.entries, entry{-1, in})
			}
			out = append(out, cs)
		}
	}
	return out
}

func c13(c *ctx) {
	r := rand.New(rand.NewSource(c.env.Seed))
	// ---------- part 1: generated grammars (reference interpreter as oracle), -race build (implies checkptr) ----------
	n := tierN(c, 72, 900)
	var cases []*gcase
	for i := 0; i < n; i++ {
		var g *gram.Grammar
		alpha := []rune("ab\x00�é\U0001F600\U0010FFFF\n")
		switch i % 3 {
		case 0:
			g = gram.Backtracky(r, alpha)
			gram.Finish(g, &gram.Profile{ChkProbes: true})
		case 1:
			p := gram.AllOps()
			p.Alphabet = alpha
			p.ChkProbes = true
			p.LDot, p.LNegClass = 5, 4
			g = gram.Random(r, p)
		default:
			g = gram.ChoiceHeavy(r)
		}
		cs := &gcase{id: i, g: g}
		var samples []string
		for _, in := range gram.Inputs(r, g, g.Rules[0].Name, 8, alpha) {
			samples = append(samples, in)
		}
		for _, in := range hostileInputs(r, samples, 36, false) {
			cs.entries = append(cs.entries, entry{-1, in})
		}
		// long inputs: a derivation repeated (10^5 runes)
		long := string(gram.Derive(r, g, g.Rules[0].Name, alpha))
		if long != "" && i%4 == 0 {
			for len([]rune(long)) < 40000 {
				long += long
			}
			cs.entries = append(cs.entries, entry{-1, long})
		}
		// medium inputs (150-600 runes): long enough for tokens and error tokens of more than 64 runes, short enough
		// for the entry rules to be tried in turn on one instance (every failed attempt has its message formatted
		// before the next attempt starts)
		if med := string(gram.Derive(r, g, g.Rules[0].Name, alpha)); med != "" {
			for len([]rune(med)) < 150+r.Intn(450) {
				med += med
			}
			cs.entries = append(cs.entries, entry{-1, med}, entry{-1, med + "\x00"}, entry{-1, med[:len(med)/2] + "\U0010FFFF" + med[len(med)/2:]})
		}
		cases = append(cases, cs)
	}
	cases = append(cases, boundaryCases(len(cases))...)
	c.run.Count("code_space_boundary_grammars", len(boundaryCases(0)))
	cfgs := []config{{name: "memo", v: vPlain, memo: true}, {name: "nomemo", v: vPlain}, {name: "both", v: vBoth, memo: true}}
	race := c.env.Tier == "thorough" || os.Getenv("VERIF_C13_RACE") != "" // generated parsers contain no unsafe code: an out-of-range access is a panic, which the
	// monitor catches; the race/checkptr build is therefore only used in the thorough tier
	f := &family{c: c, tag: "c13", race: race, configs: cfgs, refLimit: 3000000, maxDepth: 200, batch: 72, history: []string{"memo"}, retries: []string{"memo", "nomemo"}}
	f.judge = func(cs *gcase, e entry, it *ref.Interp, refOK bool, refEnd int, res map[string]*corpus.Res) {
		id := report.Hash(cs.text, e.input)
		for _, cf := range cfgs {
			rr := res[cf.name]
			if rr == nil {
				continue
			}
			c.run.Eval(1)
			c.run.Count("generated_grammar_executions", 1)
			w := func() map[string]any {
				return witness(cs, e, map[string]any{"config": cf.name, "input_hex": hex.EncodeToString([]byte(e.input)), "ref_verdict": refOK, "got_verdict": rr.OK, "got_tokens": tokStrings(rr.Toks), "panic": rr.Panic, "fatal": rr.Fatal, "bad": rr.Bad})
			}
			key := cf.name + ":" + id
			if m := crashed(rr); m != nil {
				c.run.Violate(m.kind+":"+key, m.detail, w())
				continue
			}
			if len(rr.Bad) > 0 {
				if strings.HasPrefix(rr.Bad[0], "after Error()") {
					c.run.Violate("text:"+key, "producing the error message changed the parser's own copy of the text: "+rr.Bad[0], w())
				} else {
					c.run.Violate("bounds:"+key, "in-parser bounds assertion failed: "+rr.Bad[0], w())
				}
				continue
			}
			if rr.NRunes != len(it.In) {
				c.run.Violate("runes:"+key, fmt.Sprintf("the parser sees %d runes, []rune(input) has %d", rr.NRunes, len(it.In)), w())
				continue
			}
			if rr.OK != refOK {
				c.run.Violate("verdict:"+key, fmt.Sprintf("verdict %v, PEG semantics over []rune(input) %v", rr.OK, refOK), w())
				continue
			}
			if rr.OK {
				if inv := tokenInvariants(rr.Toks, cs.g.Rules[0].Name, rr.NRunes); inv != "" {
					c.run.Violate("offsets:"+key, "reported offsets do not index the rune sequence: "+inv, w())
				} else if tokStrings(rr.Toks) != refTokStrings(it.Toks) {
					c.run.Violate("tokens:"+key, "tokens do not slice the rune sequence into what they matched", w())
				} else if got, want := traceString(rr.Trace), refTraceString(it.ActionTrace()); got != want {
					// Execute() slices the buffer by the capture tokens: the text it hands to actions is that slice of the RUNE sequence
					c.run.Violate("text:"+key, fmt.Sprintf("Execute() handed actions %s; slicing the rune sequence by the capture tokens gives %s", got, want), w())
				} else if len(rr.Trace) > 0 {
					c.run.Count("executions_with_action_text_checked", 1)
				}
			} else if rr.Max != nil && (rr.Max.B > rr.Max.E || int(rr.Max.E) > rr.NRunes) {
				c.run.Violate("errtoken:"+key, fmt.Sprintf("error token %s outside the input of %d runes", rr.Max, rr.NRunes), w())
			}
		}
		if strings.ContainsAny(e.input, "\x00\x80\xff\xc0\xed\xf4") || len(e.input) > 30000 || strings.ContainsRune(e.input, 0x10FFFF) {
			c.run.Nontrivial(id)
		}
		if len(e.input) > 30000 {
			c.run.Count("long_inputs", 1)
		}
	}
	t0 := time.Now()
	f.run(cases)
	c.run.Extra["seconds_generated_part"] = time.Since(t0).Seconds()

	// ---------- part 2: the shipped grammars, generated from the tree under test at check time ----------
	peg, err := c.env.BuildPeg(false)
	if err != nil {
		die("%v", err)
	}
	cp := corpus.New(c.env, peg, race, "c13-shipped")
	defer cp.Remove()
	ships := shippedGrammars(c.env.Repo)
	for _, s := range ships {
		cp.Add(s.job(c.env.Repo, vBoth)) // -inline -switch, as the repository's go:generate lines do
	}
	if err := cp.Build(); err != nil {
		die("shipped corpus: %v", err)
	}
	var reqs []corpus.Req
	type rk struct {
		s  shippedG
		in string
	}
	var rks []rk
	nin := tierN(c, 90, 2000)
	for _, s := range ships {
		j := cp.Job("s" + s.name + vBoth.name)
		if !j.Compiled {
			c.run.Violate("shipped-build:"+s.name, "the shipped grammar "+s.pegPath+" does not generate/compile: "+firstLine(j.GenStderr+j.CompErr), map[string]any{"stderr": j.GenStderr, "go_build": j.CompErr})
			continue
		}
		ins := append(append([]string{}, s.samples...), hostileInputs(r, s.samples, nin, s.name != "java" && s.name != "c", tierN(c, 40000, 200000))...)
		ins = append(ins, derivedInputs(r, s.grammar(c.env.Repo), s.samples, nin/2)...)
		sg := s.grammar(c.env.Repo)
		for k, in := range ins {
			memo := k%5 != 0
			if !memo && sg != nil {
				// without memoisation nested constructs of the C/Java grammars need exponential time: only inputs the
				// reference (which does not memoise either) evaluates within its step limit are run that way
				it := ref.New(sg, in)
				it.Limit = 300000
				it.Parse(sg.Rules[0].Name)
				memo = it.Over
			}
			reqs = append(reqs, corpus.Req{Pkg: j.Pkg, In: []byte(in), Memo: memo, Size: (k % 3) * 8})
			rks = append(rks, rk{s, in})
		}
	}
	c.run.Extra["seconds_shipped_build"] = time.Since(t0).Seconds()
	results, err := cp.Run(reqs, corpus.RunOpts{CPUSeconds: 400, WallSeconds: 2400})
	c.run.Extra["seconds_shipped_run"] = time.Since(t0).Seconds()
	if cp.WatchdogHits > 0 {
		c.run.Incon(fmt.Sprintf("%d child processes were stopped by the wall-clock watchdog or killed from outside (not by this check's limits)", cp.WatchdogHits))
	}
	c.run.Max("peak_child_resident_mb", cp.PeakMB)
	if err != nil {
		die("shipped run: %v", err)
	}
	shipG := map[string]*gram.Grammar{}
	for _, s := range ships {
		shipG[s.name] = s.grammar(c.env.Repo)
	}
	for i, rr := range results {
		if rr.Lost {
			continue
		}
		s, in := rks[i].s, rks[i].in
		c.run.Eval(1)
		c.run.Count("shipped_grammar_executions", 1)
		id := report.Hash(s.name, in)
		w := func() map[string]any {
			x := in
			if len(x) > 3000 {
				x = x[:3000] + "...(truncated)"
			}
			return map[string]any{"grammar": s.pegPath, "input": x, "input_hex_prefix": hex.EncodeToString([]byte(in[:min(len(in), 400)])), "input_bytes": len(in), "verdict": rr.OK, "panic": rr.Panic, "fatal": rr.Fatal, "error": rr.Err}
		}
		if m := crashed(&rr); m != nil {
			c.run.Violate(m.kind+":"+id, s.name+": "+m.detail, w())
			continue
		}
		runes := []rune(in)
		if rr.NRunes != len(runes) {
			c.run.Violate("runes:"+id, fmt.Sprintf("%s: the parser sees %d runes, []rune(input) has %d", s.name, rr.NRunes, len(runes)), w())
			continue
		}
		if why := refJudge(shipG[s.name], in, &rr); why != "" {
			c.run.Violate("shipped-ref:"+id, s.name+": "+why, w())
			continue
		}
		if rr.OK {
			c.run.Count("shipped_accepted", 1)
			if len(rr.Toks) == 0 {
				c.run.Violate("notokens:"+id, s.name+": successful parse without tokens", w())
			} else if inv := tokenInvariants(rr.Toks, rr.Toks[len(rr.Toks)-1].R, rr.NRunes); inv != "" {
				c.run.Violate("offsets:"+id, s.name+": reported offsets do not index the rune sequence: "+inv, w())
			} else if rr.NoPrint {
				c.run.Count("shipped_trees_too_large_to_print_(tokens_x_runes_over_budget)", 1)
			} else if want := treeFromTokens(rr.Toks, runes); want != rr.Sprint {
				c.run.Violate("slices:"+id, s.name+": the printed syntax tree is not what slicing the rune sequence by the tokens gives: "+firstDiff([]byte(rr.Sprint), []byte(want)), w())
			}
		} else {
			c.run.Count("shipped_rejected", 1)
			if rr.Max == nil || rr.Max.B > rr.Max.E || int(rr.Max.E) > rr.NRunes {
				c.run.Violate("errtoken:"+id, fmt.Sprintf("%s: error token %v outside the input of %d runes", s.name, rr.Max, rr.NRunes), w())
			} else if !strings.HasPrefix(rr.Err, "\nparse error near ") {
				c.run.Violate("errmsg:"+id, s.name+": malformed error message", w())
			}
		}
		if strings.ContainsAny(in, "\x00\x80\xff\xc0\xed\xf4") || len(in) > 30000 {
			c.run.Nontrivial(id)
		}
	}
	seen := map[string]bool{}
	for _, rp := range cp.RaceReports {
		k := dedupeRace(rp)
		if !seen[k] {
			seen[k] = true
			c.run.Violate("race:"+report.Hash(k), "race/checkptr report while parsing hostile input", map[string]any{"report": tail(rp, 5000)})
		}
	}
	c.run.Sample(map[string]any{"grammar": "grammars/c/c.peg", "input_hex": hex.EncodeToString([]byte("int a(){return (in\xc0\xaf)0;}")), "checked": "no panic; tokens within rune bounds, laminar post-order; SprintSyntaxTree equals the tree rebuilt from tokens by slicing []rune(input)"}, 3)
	requireCov(c, "generated_grammar_executions", "shipped_grammar_executions", "shipped_accepted", "shipped_rejected", "long_inputs")
	c.run.Rule = "cases: (1) generated grammars (shared-prefix, all-operator with '.' and negated classes, choice-heavy; bounds-assertion predicates planted; alphabet with NUL, U+FFFD, non-BMP, U+10FFFF) on hostile buffers: empty, NUL, every class of invalid UTF-8 (lone continuation, truncated sequence, overlong, surrogate, > U+10FFFF, 0xFF), BOM, U+2028, non-BMP, U+10FFFF, fragments inserted/substituted/truncated into derivations, inputs of 4*10^4 to 10^5 runes (derivation nesting bounded at 200 rule levels); memo on/off and -inline -switch; in the thorough tier the runner is built with -race (checkptr on). Oracle: no panic / fatal error; in-parser bounds assertions; rune count; verdict and tokens equal the reference interpreter over []rune(input). " +
		"(2) the shipped peg, calculator, calculatorast, C, Java, fexl and long grammars, generated with -inline -switch from the tree under test, on their sample inputs, hostile variants, one steered derivation through every rule of the grammar and fragments of arbitrary rules spliced into the samples; verdict and tokens are also compared with the reference interpreter run on the grammar read back from the .peg file; (plus inputs of 4*10^4 bytes (quick) / 2*10^5 bytes (thorough) and 200-deep nesting): no panic; every offset within the rune sequence; laminar post-order; SprintSyntaxTree equals the tree rebuilt from the tokens by slicing []rune(input); error token within the input. " +
		"distinct_nontrivial = distinct (grammar, input) whose input contains NUL or invalid UTF-8 bytes, U+10FFFF, or is longer than 30 000 bytes."
	c.run.Assume("nesting depth bounded at 200 levels (deeper recursion is a stack-size matter, DESIGN section 8); inputs up to 2*10^5 bytes")
}
