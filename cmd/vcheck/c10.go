package main

import (
	"fmt"
	"go/parser"
	"go/token"
	"math/rand"
	"os"
	"path/filepath"
	"strconv"
	"strings"

	"verif/internal/corpus"
	"verif/internal/gram"
	"verif/internal/pegsyntax"
	"verif/internal/ref"
	"verif/internal/report"
)

func init() { register("C10", "exploration", c10) }

// parseDump turns the front-end driver's tree dump (one node per line: indent, type, quoted string) into Nodes.
func parseDump(d string) []*pegsyntax.Node {
	root := &pegsyntax.Node{}
	stack := []*pegsyntax.Node{root}
	for _, line := range strings.Split(d, "\n") {
		if line == "" {
			continue
		}
		depth := 0
		for depth < len(line) && line[depth] == ' ' {
			depth++
		}
		rest := line[depth:]
		sp := strings.IndexByte(rest, ' ')
		if sp < 0 {
			continue
		}
		s, err := strconv.Unquote(rest[sp+1:])
		if err != nil {
			s = rest[sp+1:]
		}
		n := &pegsyntax.Node{T: rest[:sp], S: s}
		if depth+1 > len(stack) {
			depth = len(stack) - 1
		}
		stack = stack[:depth+1]
		stack[depth].Kids = append(stack[depth].Kids, n)
		stack = append(stack, n)
	}
	return root.Kids
}

// normalize flattens nested lists of the same type (Alternate in Alternate, Sequence in Sequence: associativity is
// not observable) and drops the strings peg keeps on nodes whose string carries no meaning.
func normalize(n *pegsyntax.Node) *pegsyntax.Node {
	out := &pegsyntax.Node{T: n.T, S: n.S}
	switch n.T {
	case "Nil", "Dot", "Alternate", "Sequence", "Range", "PeekFor", "PeekNot", "Query", "Star", "Plus", "Push":
		out.S = ""
	}
	for _, k := range n.Kids {
		nk := normalize(k)
		if (n.T == "Alternate" || n.T == "Sequence") && nk.T == n.T {
			out.Kids = append(out.Kids, nk.Kids...)
		} else {
			out.Kids = append(out.Kids, nk)
		}
	}
	return out
}

// fileOfDump rebuilds the header/rules view from peg's top-level node list.
func fileOfDump(nodes []*pegsyntax.Node) (*pegsyntax.File, string) {
	f := &pegsyntax.File{}
	alias := ""
	for _, n := range nodes {
		switch n.T {
		case "Comment":
			f.Header = append(f.Header, "c:"+n.S)
		case "Space":
			f.Header = append(f.Header, "s:"+n.S)
		case "Package":
			f.Package = n.S
		case "Import":
			if strings.HasPrefix(n.S, "=") {
				alias = n.S[1:]
			} else {
				f.Imports = append(f.Imports, pegsyntax.Import{Alias: alias, Path: n.S})
				alias = ""
			}
		case "Peg":
			f.Type = n.S
			if len(n.Kids) == 1 && n.Kids[0].T == "State" {
				f.State = n.Kids[0].S
			} else {
				return nil, "Peg node without a State child"
			}
		case "Rule":
			if len(n.Kids) != 1 {
				return nil, fmt.Sprintf("rule %s has %d bodies", n.S, len(n.Kids))
			}
			f.Rules = append(f.Rules, n)
		default:
			return nil, "unexpected top-level node " + n.T + " (the builder stack slipped)"
		}
	}
	return f, ""
}

func compareFiles(want, got *pegsyntax.File) string {
	if want.Package != got.Package {
		return fmt.Sprintf("package %q, expected %q", got.Package, want.Package)
	}
	if fmt.Sprint(want.Imports) != fmt.Sprint(got.Imports) {
		return fmt.Sprintf("imports %v, expected %v (path and alias)", got.Imports, want.Imports)
	}
	if want.Type != got.Type || want.State != got.State {
		return fmt.Sprintf("parser declaration %q {%q}, expected %q {%q}", got.Type, got.State, want.Type, want.State)
	}
	if strings.Join(want.Header, "|") != strings.Join(got.Header, "|") {
		return fmt.Sprintf("header comments/spaces %q, expected %q", got.Header, want.Header)
	}
	if len(want.Rules) != len(got.Rules) {
		return fmt.Sprintf("%d rules, expected %d", len(got.Rules), len(want.Rules))
	}
	for i := range want.Rules {
		w, g := normalize(want.Rules[i]).String(), normalize(got.Rules[i]).String()
		if w != g {
			return fmt.Sprintf("rule %d (%s) was read as %s, the text means %s", i, want.Rules[i].S, g, w)
		}
	}
	return ""
}

var syntaxAlphabet = []rune("<-←/&!?*+().'\"[]^{}\\#\n\t aAzZ09_-xX" + "\\\\''\"\"[[]]")

// mutateText applies one random syntax-level edit.
func mutateText(r *rand.Rand, text string) string {
	rs := []rune(text)
	if len(rs) == 0 {
		return string(syntaxAlphabet[r.Intn(len(syntaxAlphabet))])
	}
	i := r.Intn(len(rs))
	c := syntaxAlphabet[r.Intn(len(syntaxAlphabet))]
	switch r.Intn(9) {
	case 0:
		rs[i] = c
	case 1:
		rs = append(rs[:i], rs[i+1:]...)
	case 2:
		rs = append(rs[:i], append([]rune{c}, rs[i:]...)...)
	case 3:
		rs = rs[:i] // truncate
	case 4:
		j := i + r.Intn(len(rs)-i)
		rs = append(rs[:i], rs[j:]...) // delete a span
	case 5:
		j := i + r.Intn(min(len(rs)-i, 12))
		rs = append(rs[:j], append(append([]rune{}, rs[i:j]...), rs[j:]...)...) // duplicate a span
	case 6:
		// swap two neighbouring characters
		if i+1 < len(rs) {
			rs[i], rs[i+1] = rs[i+1], rs[i]
		}
	case 7:
		ins := []string{"''", "\"\"", "[]", "[[]]", "[z-a]", "<-", "←", "()", "{", "}", "\\q", "\\0x", "\\8", "\\400", "&{", "!{}", "//", "#", "[^]", "[[^]]", "\\0x110000", "\\0xFFFFFFFFF"}[r.Intn(22)]
		rs = append(rs[:i], append([]rune(ins), rs[i:]...)...)
	case 8:
		// drop the final newline(s) or add text after the last rule
		if r.Intn(2) == 0 {
			rs = []rune(strings.TrimRight(string(rs), "\n "))
		} else {
			rs = append(rs, []rune("# comment without newline")...)
		}
	}
	return string(rs)
}

func c10(c *ctx) {
	r := rand.New(rand.NewSource(c.env.Seed))
	nValid := tierN(c, 500, 8000)
	nMut := tierN(c, 1500, 30000)
	nRand := tierN(c, 200, 3000)

	// --replay: a witness with a "text" re-runs monitors 2/3 on that text only, a witness with a grammar/input
	// re-runs monitor 1 on that case only
	replayText, replayIsText := "", false
	if c.replay != "" {
		replayText, replayIsText = witnessString(c.replay, "text")
	}
	// ---------- monitor 1: meaning through behaviour (spelling variants, generated parsers vs reference) ----------
	if !replayIsText {
		n := tierN(c, 90, 1200)
		var cases []*gcase
		esc := []rune("ab'\"[]-\\^\n\t\r\x1b\x07\x7féÿ\u0080AZ09 ")
		for i := 0; i < n; i++ {
			p := gram.AllOps()
			p.Alphabet = esc
			p.WLeaf, p.LLit, p.LStr, p.LCILit, p.LClass, p.LNegClass, p.LCIClass, p.LRange = 8, 6, 6, 5, 5, 4, 4, 4
			p.WPred, p.WState, p.WAction = 0, 0, 1
			g := gram.Random(r, p)
			cs := &gcase{id: i, g: g}
			cs.entries = entriesFor(r, g, 18, false, 0, esc)
			cases = append(cases, cs)
		}
		f := &family{c: c, tag: "c10", variantSeed: true, noexec: true, configs: []config{{name: "plain", v: vPlain, memo: true}, {name: "both", v: vBoth, memo: true}}}
		f.judge = func(cs *gcase, e entry, it *ref.Interp, refOK bool, refEnd int, res map[string]*corpus.Res) {
			id := report.Hash(cs.text, e.input)
			for _, name := range []string{"plain", "both"} {
				rr := res[name]
				if rr == nil {
					continue
				}
				c.run.Eval(1)
				c.run.Count("behaviour_executions", 1)
				if m := crashed(rr); m != nil {
					c.run.Violate(m.kind+":"+id, m.detail, witness(cs, e, nil))
				} else if rr.OK != refOK || rr.OK && tokStrings(rr.Toks) != refTokStrings(it.Toks) {
					c.run.Violate("meaning:"+name+":"+id, fmt.Sprintf("a construct does not mean what the documentation says: on input %q the parser says %v %s, the documented meaning gives %v %s", e.input, rr.OK, tokStrings(rr.Toks), refOK, refTokStrings(it.Toks)),
						witness(cs, e, map[string]any{"config": name}))
				}
			}
			for _, k := range []string{"lit_matched_other_case", "negclass:ok", "negclass:fail", "class:ok"} {
				if it.Cov[k] > 0 {
					c.run.Count("behaviour_"+k, 1)
				}
			}
		}
		f.onJob = func(cs *gcase, v variant, j *corpus.Job) {
			if !j.Compiled {
				why := j.CompErr
				if j.GenExit != 0 || len(j.GenOut) == 0 {
					why = fmt.Sprintf("peg exit %d: %s", j.GenExit, j.GenStderr)
				}
				c.run.Violate("not-accepted:"+report.Hash(j.Text), "a grammar written in the documented syntax was not accepted / did not yield a parser: "+firstLine(why), map[string]any{"grammar": j.Text, "options": v.opts, "error": why})
			}
		}
		f.run(cases)
	}

	texts := grammarTexts(c, r, nValid, nMut, nRand)
	if c.replay != "" {
		texts = nil
		if replayIsText {
			texts = []txt{{replayText, "replay"}}
		}
	}

	// ---------- monitors 2 and 3: tree equality / rejection, against the real front end ----------
	fe := buildFront(c, filepath.Join(c.env.Repo, "peg.peg.go"), false, "c10")
	reqs := make([]feReq, len(texts))
	for i, t := range texts {
		reqs[i] = feReq{Text: t.text, Dump: true}
		if strings.Contains(t.text, "import") && (t.kind == "valid" || t.kind == "replay") {
			// imports must keep path and alias all the way into the emitted file
			reqs[i].Compile, reqs[i].Code = true, true
		}
	}
	results := fe.run(reqs)
	for i, t := range texts {
		res := results[i]
		c.run.Eval(1)
		id := report.Hash(t.text)
		want, rerr := pegsyntax.Parse(t.text)
		w := func(extra map[string]any) map[string]any {
			m := map[string]any{"text": t.text, "kind": t.kind, "peg_accepted": res.Accepted, "peg_error": res.ParseErr, "panic": res.Panic, "fatal": res.Fatal}
			if rerr != nil {
				m["independent_reader"] = rerr.Error()
			} else {
				m["independent_reader"] = "accepts"
			}
			for k, v := range extra {
				m[k] = v
			}
			return m
		}
		c.run.Count("texts_"+t.kind, 1)
		if res.Lost {
			c.run.Incon("front-end driver returned no result for a text")
			continue
		}
		if res.Fatal != "" {
			c.run.Violate("fatal:"+id, "the front end killed the process on this text: "+firstLine(res.Fatal), w(nil))
			continue
		}
		if res.Panic != "" {
			c.run.Violate("panic:"+id, "the front end panicked on this text: "+res.Panic, w(nil))
			continue
		}
		if rerr != nil {
			c.run.Count("rejected_by_reader", 1)
			if res.Accepted {
				c.run.Violate("accepted-malformed:"+id, "text that is not a grammar was accepted ("+rerr.Error()+")", w(nil))
			} else {
				c.run.Count("rejected_by_both", 1)
				if t.kind == "mutant" || t.kind == "random" {
					c.run.Nontrivial("r" + id)
				}
			}
			continue
		}
		c.run.Count("accepted_by_reader", 1)
		if !res.Accepted {
			c.run.Violate("rejected-valid:"+id, "a grammar in the documented syntax was rejected: "+firstLine(strings.TrimSpace(res.ParseErr)), w(nil))
			continue
		}
		got, why := fileOfDump(parseDump(res.Tree))
		if why == "" {
			why = compareFiles(want, got)
		}
		if why != "" {
			c.run.Violate("tree:"+id, "the front end built a different tree than the text denotes: "+why, w(map[string]any{"difference": why}))
			continue
		}
		if res.Code != "" && len(want.Imports) > 0 {
			if fset, perr := parser.ParseFile(token.NewFileSet(), "g.go", res.Code, parser.ImportsOnly); perr == nil {
				have := map[string]bool{}
				for _, im := range fset.Imports {
					name := ""
					if im.Name != nil {
						name = im.Name.Name
					}
					have[name+" "+im.Path.Value] = true
				}
				for _, im := range want.Imports {
					// (an alias that repeats the package's own name — io "io" — declares the same name as the plain import)
					if !have[im.Alias+" "+strconv.Quote(im.Path)] && !(im.Alias == im.Path && have[" "+strconv.Quote(im.Path)]) {
						c.run.Violate("import:"+id, fmt.Sprintf("the import %s %q of the grammar is not in the generated file (path and alias must be kept)", im.Alias, im.Path), w(map[string]any{"emitted_imports": fmt.Sprint(have)}))
						break
					}
				}
				c.run.Count("emitted_import_blocks_checked", 1)
			} else {
				c.run.Violate("emitted:"+id, "the emitted file does not parse: "+perr.Error(), w(nil))
			}
		}
		c.run.Count("trees_equal", 1)
		if strings.ContainsAny(t.text, "\\\"[") {
			c.run.Nontrivial("a" + id)
		}
		if t.kind == "valid" && len(t.text) < 900 {
			c.run.Sample(map[string]any{"text": t.text, "rules": len(want.Rules), "verdict": "accepted by both, trees equal"}, 2)
		}
		if t.kind == "mutant" && len(t.text) < 600 {
			c.run.Sample(map[string]any{"text": t.text, "verdict": "mutant accepted by both, trees equal"}, 4)
		}
	}
	// a sample of the malformed texts goes through the real CLI too: it must fail with a message, never panic or hang
	peg, err := c.env.BuildPeg(false)
	if err != nil {
		die("%v", err)
	}
	ncli := 0
	for i, t := range texts {
		if t.kind == "valid" || t.kind == "shipped" || (i%tierN(c, 12, 40) != 0 && t.kind != "replay") {
			continue
		}
		_, rerr := pegsyntax.Parse(t.text)
		if rerr == nil {
			continue
		}
		d := filepath.Join(c.env.Scratch, "c10-cli")
		res := runPeg(peg, d, t.text)
		os.RemoveAll(d)
		ncli++
		c.run.Eval(1)
		if crashedCLI(res) || res.exit == 0 || strings.TrimSpace(res.stderr) == "" {
			c.run.Violate("cli:"+report.Hash(t.text), fmt.Sprintf("the CLI must report malformed text as an error (exit %d)", res.exit), map[string]any{"text": t.text, "exit": res.exit, "stderr": res.stderr})
		}
	}
	c.run.Count("malformed_texts_through_cli", ncli)
	requireCov(c, "behaviour_executions", "behaviour_lit_matched_other_case", "behaviour_negclass:ok", "trees_equal", "emitted_import_blocks_checked", "rejected_by_both", "accepted_by_reader", "texts_mutant", "malformed_texts_through_cli")
	c.run.Rule = "monitor 1 (meaning through behaviour): grammars rich in literals, classes, negated and case-insensitive classes over an alphabet of quote, bracket, dash, backslash, caret, control and Latin-1 characters are printed with random spelling variants (both arrows, # and // comments and blank lines wherever spacing is allowed, every escape spelling incl. upper-case letters, octal, \\0x hex, raw vs escaped, single vs double quotes, redundant parentheses) and the generated parsers must behave like the reference interpreter of the intended AST; " +
		"monitor 2 (tree equality): every accepted text is also read by an independent hand-written reader of the documented syntax and the rule tree built by the real front end (obtained through the tree package's exported methods) must equal the reader's tree node by node, incl. package, imports with alias, type, state, header comments, and the import block of the file Compile emits must still contain every import of the grammar with its alias; " +
		"monitor 3 (rejection): syntax-level mutants of valid texts (replace/delete/insert/truncate/duplicate/swap, injected empty literals/classes, bad escapes, unbalanced braces, missing final newline) and random strings over the syntax alphabet: the reader rejects => peg must reject with an error (no panic, no process death), the reader accepts => trees must be equal; a sample of malformed texts also goes through the CLI. " +
		"distinct_nontrivial = distinct accepted texts containing an escape, a class or a double-quoted literal, plus distinct mutated/random texts rejected by both."
	c.run.Assume("the independent reader takes its rules from docs/peg-file-syntax.md and, where the docs only show examples, from the grammar of the language in peg.peg lines 22-129 read as a PEG; case-insensitivity is ASCII letter folding (DESIGN 6.3)")
}

type txt struct {
	text string
	kind string
}

// grammarTexts: the stream of grammar texts used by C10 (monitors 2, 3) and C17 (front-end agreement): shipped
// grammars, generated valid texts with spelling variants and varied headers/imports/state, syntax-level mutants,
// random strings over the syntax alphabet, boundary texts.
func grammarTexts(c *ctx, r *rand.Rand, nValid, nMut, nRand int) []txt {
	// ---------- texts for monitors 2 and 3 ----------
	var texts []txt
	var valid []string
	for _, fn := range []string{"peg.peg", "grammars/calculator/calculator.peg", "grammars/calculatorast/calculator.peg", "grammars/c/c.peg", "grammars/fexl/fexl.peg", "grammars/java/java_1_7.peg", "cmd/peg-bootstrap/bootstrap.peg", "cmd/peg-bootstrap/peg.bootstrap.peg"} {
		if b, err := os.ReadFile(filepath.Join(c.env.Repo, fn)); err == nil {
			texts = append(texts, txt{string(b), "shipped"})
			if len(b) < 8000 {
				valid = append(valid, string(b))
			}
		}
	}
	headers := []string{"", "# a comment\n", "// another\n\n", "\n\n  \t\n", "# one\n# two\n\n// three\n", "#\n", "//no space\n \n"}
	importSets := [][]string{nil, {`import "fmt"`}, {`import f "fmt"`, `import "os/exec"`}, {"import (\n\"strings\"\nx \"os\"\n)"}, {"import (\n \"a/b-c.d\"\n\n y_1 \"z\"\n )"}, {`import"fmt"`}, {`import io "io"`, `import strconv "strconv"`},
		// an alias equal to the last element of a longer path is not redundant: the package there may be named otherwise
		{`import v2 "x/lib/v2"`, `import yaml "gopkg.in/yaml.v3"`}, {"import (\n lib \"a/b/lib\"\n b \"a/b\"\n)"}}
	states := []string{"", " n int", " m map[string]struct{ a int }\n f func() { }", " s string // {}", "\n"}
	esc := []rune("ab'\"[]-\\^\n\t\r\x1b\x7féÿ\u0080AZ09 {}<>/&!?*+.()#←\U0001F600")
	for i := 0; i < nValid; i++ {
		var g *gram.Grammar
		switch i % 5 {
		case 0:
			g = gram.ChoiceHeavy(r)
		case 1:
			g = gram.Backtracky(r, esc[:12])
		case 2:
			g, _ = gram.Planted(r)
		default:
			p := gram.AllOps()
			p.Alphabet = esc
			p.LLit, p.LStr, p.LCILit, p.LClass, p.LNegClass, p.LCIClass = 6, 6, 5, 5, 4, 4
			g = gram.Random(r, p)
		}
		o := gram.PrintOpts{Package: []string{"g", "main", "_p9", "Package"}[r.Intn(4)], Type: []string{"P", "Peg", "my_Parser1"}[r.Intn(3)],
			State: states[r.Intn(len(states))], Imports: importSets[r.Intn(len(importSets))], Header: headers[r.Intn(len(headers))],
			V: rand.New(rand.NewSource(c.env.Seed*131 + int64(i)))}
		if i%7 == 0 {
			o.V = nil
		}
		o.ActionCode = func(id int) string {
			return []string{fmt.Sprintf("p.n += %d", id), "if true { p.x() }", "/* } */ a := map[int]struct{}{}; _ = a", "s := \"\\\"\"; _ = s", "",
				// quotes inside rune literals and raw strings, with braces after them on the same line: braces are counted
				// textually, whatever the Go lexer would make of the quotes
				"if q := '\"'; len(text) > 0 { p.s = string(q) + text + \"\\\"\" }", "c, d := '\\'', '\"'; if c != d { p.n++ }", "s := `\"` + \"x\"; if len(s) > 1 { p.n++ }"}[(id+i)%8]
		}
		o.StateCode = func(id int) string { return fmt.Sprintf("p.k[%d]++", id) }
		t := gram.PrintGrammar(g, o)
		// a few texts with balanced braces hidden in strings/comments break textual brace counting on purpose: keep them
		texts = append(texts, txt{t, "valid"})
		valid = append(valid, t)
	}
	for i := 0; i < nMut; i++ {
		t := valid[r.Intn(len(valid))]
		m := mutateText(r, t)
		for k := r.Intn(3); k > 0; k-- {
			m = mutateText(r, m)
		}
		texts = append(texts, txt{m, "mutant"})
	}
	for i := 0; i < nRand; i++ {
		n := 1 + r.Intn(60)
		rs := make([]rune, n)
		for j := range rs {
			rs[j] = syntaxAlphabet[r.Intn(len(syntaxAlphabet))]
		}
		pre := ""
		if i%2 == 0 {
			pre = "package p\ntype T Peg {}\n"
		}
		texts = append(texts, txt{pre + string(rs), "random"})
	}
	for _, t := range []string{"", "\x00", "\xff\xfe", "package", "package p", "package p\ntype T Peg {}", "package p\ntype T Peg {}\nA <- ", "package p\ntype T Peg {}\nA <- 'a'", "package p\ntype T Peg {}\nA <- 'a' # no newline",
		"package p\ntype T Peg {}\nA <- ''\nB <- \"\" [] [[]]\n", "package p\ntype T Peg {}\nA <- [z-a] [\\0x10FFFF-\\0x0]\n", "package p\ntype T Peg {}\nA <- '\\377\\200\\0x80\\0X7f\\12\\N'\n"} {
		texts = append(texts, txt{t, "boundary"})
	}

	return texts
}
