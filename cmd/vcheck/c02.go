package main

import (
	"bytes"
	"fmt"
	"math/rand"

	"verif/internal/corpus"
	"verif/internal/gram"
	"verif/internal/ref"
	"verif/internal/report"
)

func init() { register("C02", "exploration", c02) }

// recursiveEntries: inputs for a grammar with rule cycles: derivations with a bounded number of free choices (they
// terminate, and nest a few levels deep), their mutations, and the usual boundary strings.
func recursiveEntries(r *rand.Rand, g *gram.Grammar, n int) []entry {
	alpha := append([]rune("abcdefgz"), g.Runes()...)
	st := gram.NewSteer(g)
	seen := map[string]bool{}
	var es []entry
	add := func(in []rune) {
		if len(in) <= 80 && !seen[string(in)] {
			seen[string(in)] = true
			es = append(es, entry{-1, string(in)})
		}
	}
	for i := 0; i < n*2 && len(es) < n; i++ {
		in := st.DeriveFree(r, g.Rules[0].Name, 1+i%9, alpha)
		add(in)
		if i%3 == 0 {
			add(gram.Mutate(r, in, alpha))
		}
	}
	for _, in := range gram.Inputs(r, g, g.Rules[0].Name, 6, alpha) {
		add([]rune(in))
	}
	return es
}

func c02(c *ctx) {
	n := tierN(c, 220, 4000)
	r := rand.New(rand.NewSource(c.env.Seed))
	var cases []*gcase
	for i := 0; i < n; i++ {
		var g *gram.Grammar
		if i%8 == 6 {
			// shared prefixes / rules called from several alternatives of one rule (reference counting, inlining
			// and the always-succeeds shortcut see the same rule more than once)
			g = gram.Backtracky(r, []rune("abcdefgz"))
		} else if i%4 == 3 {
			p := gram.AllOps()
			p.AltMin, p.AltMax, p.WAlt, p.MultiRef = 3, 7, 9, i%8 == 3
			g = gram.Random(r, p)
		} else {
			g = gram.ChoiceHeavy(r)
		}
		cs := &gcase{id: i, g: g}
		alpha := append([]rune("abcdefgz"), g.Runes()...)
		if i%8 == 2 {
			// rule cycles: alternatives that begin with a rule still being analysed further up the call chain
			g = gram.Recursive(r)
			cs.g = g
			cs.entries = recursiveEntries(r, g, 26)
			cases = append(cases, cs)
			continue
		}
		cs.entries = entriesFor(r, g, 22, false, 0, alpha)
		cases = append(cases, cs)
	}
	// ladders of mutually recursive rules: the first-character set of every rung is that of the rung above plus one
	// letter, and every rung is met by the -switch analysis while the rung above is still being analysed — the set of
	// the lowest rung is complete only after as many passes as there are rungs (the analysis repeats until it settles,
	// F26; seeded C02-K capped the number of passes)
	for _, top := range []int{5, 9, 13} {
		letters := []rune("bcdfghijklmoprstu")
		L, R := gram.Lit, gram.Ref
		rn := func(i int) string { return fmt.Sprintf("L%d", i) }
		g := &gram.Grammar{Rules: []*gram.Rule{
			{Name: "R0", E: gram.Seq(R(rn(top)), L("!"), R("Tail"), gram.Un(gram.KNot, gram.Dot()))},
			{Name: "Tail", E: gram.Alt(gram.Seq(R(rn(0)), L("q")), gram.Seq(L("n"), L("y")), L("w"), L("v"))},
			{Name: rn(top), E: gram.Alt(gram.Seq(L("n"), R(rn(top-1))), L("z"))},
		}}
		for i := top - 1; i >= 1; i-- {
			g.Rules = append(g.Rules, &gram.Rule{Name: rn(i), E: gram.Alt(gram.Seq(R(rn(i+1)), L("q")), gram.Seq(L(string(letters[i-1])), R(rn(i-1))))})
		}
		g.Rules = append(g.Rules, &gram.Rule{Name: rn(0), E: gram.Alt(gram.Seq(R(rn(1)), L("q")), L("e"))})
		g.Number()
		cs := &gcase{id: len(cases), g: g}
		down := "n"
		for i := top - 1; i >= 1; i-- {
			down += string(letters[i-1])
		}
		down += "e"
		qs := func(n int) string { return string(bytes.Repeat([]byte("q"), n)) }
		for _, in := range []string{"z!" + down + qs(top+1), "z!z" + qs(top+1), "z!eq", "z!ny", "z!w", "z!" + down + qs(top), "z!n" + qs(top+1), "n" + down[1:] + "!" + "eq", "z!" + down[:len(down)-1] + "z" + qs(top+1), ""} {
			cs.entries = append(cs.entries, entry{-1, in})
		}
		cs.entries = append(cs.entries, recursiveEntries(r, g, 10)...)
		cases = append(cases, cs)
		c.run.Count("rule_ladders", 1)
	}
	// ranges with ordinary bounds that span the surrogate block, as -switch cases next to a larger alternative: the
	// case keys are enumerated around U+D800-U+DFFF, the characters on both sides of the gap must still be keys
	for _, sr := range [][4]rune{{0xD7F0, 0xE00F, 0xE010, 0xF8FF}, {0xD7FF, 0xE000, 0xE001, 0xE900}, {0x80, 0xFFFF, 0x10000, 0x10FFFF}} {
		g := &gram.Grammar{Rules: []*gram.Rule{{Name: "R0", E: gram.Seq(gram.Un(gram.KPlus, gram.Alt(
			gram.Seq(gram.Rng(sr[0], sr[1]), gram.Un(gram.KQuery, gram.Lit("x"))),
			gram.Seq(gram.Rng(sr[2], sr[3]), gram.Lit("y")),
			gram.Seq(gram.Lit("a"), gram.Lit("z")))), gram.Un(gram.KNot, gram.Dot()))}}}
		g.Number()
		cs := &gcase{id: len(cases), g: g}
		for _, x := range []rune{sr[0], sr[0] + 1, 0xD7FF, 0xE000, 0xE001, 0xFFFD, sr[1], sr[1] - 1, sr[2], sr[3], sr[0] - 1, sr[3] + 1, 'a', 0x7f} {
			if x > 0x10FFFF || x >= 0xD800 && x <= 0xDFFF {
				continue
			}
			cs.entries = append(cs.entries, entry{-1, string(x)}, entry{-1, string(x) + "x"}, entry{-1, string(x) + "y"}, entry{-1, "az" + string(x) + "y" + string(x)})
		}
		cs.entries = append(cs.entries, entry{-1, "\xed\xa0\x80"}, entry{-1, ""})
		cases = append(cases, cs)
		c.run.Count("grammars_with_a_range_spanning_the_surrogate_block", 1)
	}
	hasSwitch := map[int]bool{}
	inlined := map[int]int{}
	f := &family{c: c, tag: "c02", configs: []config{
		{name: "plain", v: vPlain, memo: true}, {name: "inline", v: vInline, memo: true},
		{name: "switch", v: vSwitch, memo: true}, {name: "both", v: vBoth, memo: true}}}
	f.onJob = func(cs *gcase, v variant, j *corpus.Job) {
		if !j.Compiled {
			c.run.Count("excluded_packages_"+v.name, 1)
			f.excluded = append(f.excluded, j.CompErr+j.GenStderr)
			return
		}
		if v.sw && bytes.Contains(j.GenOut, []byte("switch buffer[position]")) {
			hasSwitch[cs.id] = true
			c.run.Count("packages_with_switch_"+v.name, 1)
		}
		if v.inline {
			k := bytes.Count(j.GenOut, []byte("\n\tnil,")) + bytes.Count(j.GenOut, []byte("\n\t\tnil,")) - 1
			if k > 0 {
				inlined[cs.id] = k
				c.run.Count("rules_inlined_"+v.name, k)
			}
		}
	}
	f.judge = func(cs *gcase, e entry, it *ref.Interp, refOK bool, refEnd int, res map[string]*corpus.Res) {
		covAccumulate(c, it)
		id := report.Hash(cs.text, e.input)
		base := res["plain"]
		wantToks := refTokStrings(it.Toks)
		for _, name := range []string{"plain", "inline", "switch", "both"} {
			r := res[name]
			if r == nil {
				continue
			}
			c.run.Eval(1)
			w := func() map[string]any {
				m := map[string]any{"config": name, "ref_verdict": refOK, "ref_end": refEnd, "ref_tokens": wantToks, "got_verdict": r.OK, "got_tokens": tokStrings(r.Toks), "panic": r.Panic, "fatal": r.Fatal}
				if base != nil {
					m["plain_verdict"], m["plain_tokens"] = base.OK, tokStrings(base.Toks)
				}
				return witness(cs, e, m)
			}
			key := name + ":" + id
			switch {
			case r.Fatal != "":
				c.run.Violate("fatal:"+key, "parser generated with "+name+" killed the process", w())
			case r.Panic != "":
				c.run.Violate("panic:"+key, "parser generated with "+name+" panicked: "+r.Panic, w())
			case r.OK != refOK:
				c.run.Violate("verdict:"+key, fmt.Sprintf("%s: verdict %v, reference (and PEG semantics) %v on input %q", name, r.OK, refOK, e.input), w())
			case r.OK && tokStrings(r.Toks) != wantToks:
				c.run.Violate("tokens:"+key, fmt.Sprintf("%s: token sequence differs from the reference on input %q", name, e.input), w())
			case base != nil && base.Panic == "" && base.Fatal == "" && (r.OK != base.OK || r.OK && tokStrings(r.Toks) != tokStrings(base.Toks)):
				c.run.Violate("differs:"+key, name+": differs from the parser generated without options", w())
			}
		}
		if hasSwitch[cs.id] && (it.Cov["alt_nonfirst_taken"] > 0 || it.Cov["alt_all_failed"] > 0) {
			c.run.Nontrivial(id)
		}
		c.run.Sample(map[string]any{"grammar": cs.text, "input": e.input, "reference_accepts": refOK, "reference_tokens": wantToks}, 3)
	}
	f.run(cases)
	c.run.Count("grammars_with_switch_block", len(hasSwitch))
	c.run.Count("grammars_with_inlined_rules", len(inlined))
	requireCov(c, "grammars_with_switch_block", "grammars_with_inlined_rules", "ref_alt_nonfirst_taken", "ref_alt_all_failed")
	if ex := c.run.Counters["excluded_packages_switch"] + c.run.Counters["excluded_packages_both"] + c.run.Counters["excluded_packages_plain"] + c.run.Counters["excluded_packages_inline"]; ex*10 > len(cases)*4 {
		c.run.Incon(fmt.Sprintf("%d packages could not be generated/compiled (see C08): too few executions to judge", ex))
	}
	c.run.Rule = "cases: choice-heavy well-formed grammars (choices of 3-8 alternatives: nullable, lookahead-initial, ranges/classes disjoint/adjacent/overlapping, multi-key first sets incl. U+0000 and U+10FFFF, '.'-initial, nested choices, via rule references used once or several times, under * + ? and in lookahead) plus all-operator grammars with wide choices; each generated with the real peg under {}, -inline, -switch, -inline -switch; " +
		"inputs: derivation walks, mutations, first-set boundary runes (r-1, r, r+1), empty. Oracle: verdict, consumed prefix and full token sequence equal to the reference interpreter and to the option-free parser. " +
		"distinct_nontrivial = distinct (grammar, input) where the -switch output really contains a switch block and the reference took a non-first alternative or failed a choice."
	c.run.Assume("well-formed grammars (gram analysis); -inline parsers are entered through the first rule only; the furthest-failure token is not compared here (C11)")
}
