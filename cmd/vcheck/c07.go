package main

import (
	"fmt"
	"math/rand"
	"os"
	"regexp"
	"strings"

	"verif/internal/corpus"
	"verif/internal/gram"
	"verif/internal/ref"
	"verif/internal/report"
)

func init() { register("C07", "exploration", c07) }

// c07case carries which state-change ids are capture-completion probes / the end probe, and which action ids
// directly follow a capture.
type c07info struct {
	capState map[int]bool
	capAct   map[int]bool
	endState int
	wrapped  bool
}

// instrument07 puts "!{capd(position)} {action}" behind every capture and (optionally) wraps the first rule so
// that the consumed prefix becomes observable without an AST.
func instrument07(g *gram.Grammar, wrap bool) (*gram.Grammar, *c07info) {
	info := &c07info{capState: map[int]bool{}, capAct: map[int]bool{}, endState: -1, wrapped: wrap}
	type mark struct{ st, ac *gram.Expr }
	var marks []mark
	var tr func(e *gram.Expr) *gram.Expr
	tr = func(e *gram.Expr) *gram.Expr {
		for i, k := range e.Kids {
			e.Kids[i] = tr(k)
		}
		if e.K == gram.KCapture {
			st, ac := gram.State(), gram.Act()
			marks = append(marks, mark{st, ac})
			return gram.Seq(e, st, ac)
		}
		return e
	}
	for _, r := range g.Rules {
		r.E = tr(r.E)
	}
	var end *gram.Expr
	if wrap {
		end = gram.State()
		top := &gram.Rule{Name: "Top", E: gram.Seq(gram.Ref(g.Rules[0].Name), end)}
		g.Rules = append([]*gram.Rule{top}, g.Rules...)
	}
	g.Number()
	for _, m := range marks {
		info.capState[m.st.ID] = true
		info.capAct[m.ac.ID] = true
	}
	if end != nil {
		info.endState = end.ID
	}
	return g, info
}

func c07(c *ctx) {
	n := tierN(c, 200, 3500)
	r := rand.New(rand.NewSource(c.env.Seed))
	var cases []*gcase
	infos := map[int]*c07info{}
	for i := 0; i < n; i++ {
		var g *gram.Grammar
		alpha := []rune("abcdz\né😀")
		switch i % 4 {
		case 0, 2:
			g = gram.ChoiceHeavy(r)
			alpha = append([]rune("abcdefgz"), g.Runes()...)
		case 1:
			p := gram.AllOps()
			p.WCapture, p.WAction, p.WState, p.MinRules = 4, 4, 2, 2
			g = gram.Random(r, p)
			alpha = p.Alphabet
		default:
			g = gram.Backtracky(r, alpha)
		}
		if !g.WellFormed() {
			i--
			continue
		}
		g, info := instrument07(g, i%2 == 0)
		if !g.WellFormed() {
			i--
			continue
		}
		infos[i] = info
		cs := &gcase{id: i, g: g, inline: true}
		cs.entries = entriesFor(r, g, 26, false, 0, alpha)
		cases = append(cases, cs)
	}
	// directed shapes (always run): token language whose first alternative is a capture over an inner choice
	{
		L := gram.Lit
		tok := gram.Alt(
			gram.Seq(gram.Un(gram.KCapture, gram.Alt(gram.Seq(L("0"), gram.Cls(gram.Item{Lo: 'x', Hi: 'x'}, gram.Item{Lo: 'X', Hi: 'X'}), gram.Un(gram.KPlus, gram.Cls(gram.Item{Lo: '0', Hi: '9'}, gram.Item{Lo: 'a', Hi: 'f'}))), gram.Un(gram.KPlus, gram.Rng('0', '9')))), gram.Act()),
			gram.Seq(gram.Un(gram.KCapture, gram.Un(gram.KPlus, gram.Rng('a', 'z'))), gram.Act()),
			gram.Seq(gram.Un(gram.KCapture, L("+")), gram.Act()))
		g := &gram.Grammar{Rules: []*gram.Rule{
			{Name: "R0", E: gram.Seq(gram.Ref("Tok"), gram.Un(gram.KStar, gram.Seq(L(" "), gram.Ref("Tok"))), gram.Un(gram.KNot, gram.Dot()))},
			{Name: "Tok", E: tok}}}
		g, info := instrument07(g, true)
		id := len(cases)
		infos[id] = info
		cs := &gcase{id: id, g: g, inline: true}
		for _, in := range []string{"0x1f", "12 ab +", "5x1f", "7Xa + 1", "0x", "x0", "+ +", "", "9"} {
			cs.entries = append(cs.entries, entry{-1, in})
		}
		cs.entries = append(cs.entries, entriesFor(r, g, 12, false, 0, []rune("0123456789abcdefxX+ "))...)
		if os.Getenv("VERIF_DEBUG") != "" {
			for _, e := range cs.entries {
				fmt.Fprintf(os.Stderr, "DIRECTED %q\n", e.input)
			}
		}
		cases = append(cases, cs)
	}
	cfgs := []config{{name: "ast", v: vPlain, memo: true}, {name: "noast", v: vNoast}, {name: "noastinline", v: vNI}, {name: "noastswitch", v: vNS}, {name: "noastboth", v: vNB}}
	f := &family{c: c, tag: "c07", configs: cfgs, noexec: true, history: []string{"noast", "noastboth"}, retries: []string{"ast", "noast", "noastswitch"}, reinit: true}
	f.prepareReplay = func(cs *gcase) {
		// rebuild which state changes are capture-completion / end probes from the witness text (textual order = id)
		info := &c07info{capState: map[int]bool{}, capAct: map[int]bool{}, endState: -1}
		re := regexp.MustCompile(`!\s*\{\s*p\.(capd|setEnd|note)\(`)
		for i, m := range re.FindAllStringSubmatch(cs.rawText, -1) {
			switch m[1] {
			case "capd":
				info.capState[i] = true
			case "setEnd":
				info.endState = i
				info.wrapped = true
			}
		}
		cs.g.Walk(func(_ *gram.Rule, e *gram.Expr) {
			if e.K == gram.KSeq {
				for i := 0; i+1 < len(e.Kids); i++ {
					if e.Kids[i].K == gram.KState && info.capState[e.Kids[i].ID] && e.Kids[i+1].K == gram.KAction {
						info.capAct[e.Kids[i+1].ID] = true
					}
				}
			}
		})
		infos[cs.id] = info
	}
	f.stateCode = func(cs *gcase) func(int) string {
		info := infos[cs.id]
		return func(id int) string {
			switch {
			case id == info.endState:
				return "p.setEnd(int(position))"
			case info.capState[id]:
				return "p.capd(int(position))"
			}
			return fmt.Sprintf("p.note(%d, int(position))", id)
		}
	}
	f.judge = func(cs *gcase, e entry, it *ref.Interp, refOK bool, refEnd int, res map[string]*corpus.Res) {
		covAccumulate(c, it)
		info := infos[cs.id]
		id := report.Hash(cs.text, e.input)
		in := []rune(e.input)
		// reference inline trace: every action reached, in time order, text = most recently completed capture in time
		var wantEv []string
		for _, ev := range it.Events {
			switch ev.Kind {
			case "act":
				wantEv = append(wantEv, fmt.Sprintf("act%d:%q", ev.ID, ev.Text))
			case "note":
				if ev.ID == info.endState {
					continue
				}
				if info.capState[ev.ID] {
					wantEv = append(wantEv, fmt.Sprintf("cap@%d", ev.Pos))
				} else {
					wantEv = append(wantEv, fmt.Sprintf("note%d@%d", ev.ID, ev.Pos))
				}
			}
		}
		var derivIDs []int
		for _, a := range it.ActionTrace() {
			derivIDs = append(derivIDs, a.ID)
		}
		ast := res["ast"]
		for _, cf := range cfgs {
			r := res[cf.name]
			if r == nil {
				continue
			}
			c.run.Eval(1)
			var gotEv []string
			for _, ev := range r.Events {
				switch ev.K {
				case "act":
					gotEv = append(gotEv, fmt.Sprintf("act%d:%q", ev.ID, ev.Text))
				case "cap":
					gotEv = append(gotEv, fmt.Sprintf("cap@%d", ev.B))
				case "note":
					gotEv = append(gotEv, fmt.Sprintf("note%d@%d", ev.ID, ev.B))
				}
			}
			w := func() map[string]any {
				m := map[string]any{"config": cf.name, "ref_verdict": refOK, "ref_end": refEnd, "ref_inline_events": wantEv, "got_verdict": r.OK, "got_end": r.End, "got_events": gotEv, "panic": r.Panic, "fatal": r.Fatal}
				if ast != nil {
					m["default_parser_verdict"] = ast.OK
				}
				return witness(cs, e, m)
			}
			key := cf.name + ":" + id
			if m := crashed(r); m != nil {
				c.run.Violate(m.kind+":"+key, cf.name+": "+m.detail, w())
				continue
			}
			if r.OK != refOK {
				c.run.Violate("verdict:"+key, fmt.Sprintf("%s: verdict %v, PEG semantics %v", cf.name, r.OK, refOK), w())
				continue
			}
			if ast != nil && ast.Panic == "" && ast.Fatal == "" && ast.OK != r.OK {
				c.run.Violate("differs:"+key, cf.name+": verdict differs from the default (AST) parser", w())
				continue
			}
			if !cf.v.noast {
				continue
			}
			if info.wrapped && r.OK && r.End != refEnd {
				c.run.Violate("prefix:"+key, fmt.Sprintf("%s: consumed prefix %d, PEG semantics %d", cf.name, r.End, refEnd), w())
				continue
			}
			if !cf.v.sw {
				if strings.Join(gotEv, " ") != strings.Join(wantEv, " ") {
					c.run.Violate("inline-trace:"+key, cf.name+": inline actions/state changes did not run exactly when reached, in order, with the latest completed capture as text", w())
				}
				continue
			}
			// -switch: the set and order of attempted alternatives may differ; trace-internal oracle + containment
			cur, lastCap := "", -1
			bad := ""
			var ids []int
			for _, ev := range r.Events {
				switch ev.K {
				case "cap":
					lastCap = ev.B
				case "act":
					ids = append(ids, ev.ID)
					if info.capAct[ev.ID] {
						t := []rune(ev.Text)
						if lastCap < 0 || len(t) > lastCap || lastCap > len(in) || string(in[lastCap-len(t):lastCap]) != ev.Text {
							bad = fmt.Sprintf("action %d right after a capture ending at %d saw text %q, which is not the input text ending there", ev.ID, lastCap, ev.Text)
						}
						cur = ev.Text
					} else if ev.Text != cur {
						bad = fmt.Sprintf("action %d saw text %q but the most recently completed capture was %q", ev.ID, ev.Text, cur)
					}
				}
			}
			if bad == "" && r.OK {
				k := 0
				for _, x := range ids {
					if k < len(derivIDs) && derivIDs[k] == x {
						k++
					}
				}
				if k < len(derivIDs) {
					bad = fmt.Sprintf("the derivation's actions %v do not all run, in order (ran %v)", derivIDs, ids)
				}
			}
			if bad != "" {
				c.run.Violate("inline-switch:"+key, cf.name+": "+bad, w())
			}
		}
		nact := 0
		for _, ev := range it.Events {
			if ev.Kind == "act" {
				nact++
			}
		}
		if nact > 0 {
			c.run.Count("cases_with_inline_actions", 1)
		}
		if it.Cov["capture_discarded_seqfail"]+it.Cov["capture_discarded_altfail"]+it.Cov["capture_discarded_lookahead"]+it.Cov["capture_discarded_rulefail"]+it.Cov["capture_discarded_iterfail"]+it.Cov["capture_discarded_queryfail"] > 0 && nact > 0 {
			c.run.Nontrivial(id)
			c.run.Sample(map[string]any{"grammar": cs.text, "input": e.input, "reference_accepts": refOK, "expected_inline_events": wantEv}, 2)
		}
	}
	f.run(cases)
	requireCov(c, "retry_success_after_failed_attempts", "cases_with_inline_actions", "ref_capture_discarded_seqfail", "ref_capture_completed_in_lookahead")
	c.run.Rule = "cases: choice-heavy, all-operator and shared-prefix grammars in which every capture is followed by a position probe and an action, every action is a probe recording (id, text) at the moment it runs, and half of the grammars are wrapped as Top <- R0 !{record position} so that the consumed prefix is observable without an AST; generated with -noast, -noast -inline, -noast -switch, -noast -inline -switch and with default options. " +
		"Oracle: verdict equals the reference and the default parser; consumed prefix equals the reference; for -noast and -noast -inline the interleaved event list (actions with text, capture-completion positions, state changes) equals the reference's time-ordered list (every action reached runs, text = most recently completed capture in time); for the two -switch combinations (which legitimately attempt different alternatives) each action's text must equal the latest capture completed in the same trace, that capture must be the input text ending at the recorded position, and the derivation's actions must run in order. " +
		"Entry rules tried in turn: on one instance (default, -noast, -noast -switch; no Reset) Parse(rule) is called for up to three rules that fail after matching something and then for a rule that accepts; every verdict must be the reference's. " +
		"distinct_nontrivial = distinct (grammar, input) with inline actions where a completed capture was later abandoned by backtracking."
	c.run.Assume("actions use text only in grammars that contain a capture (without one, text is not declared under -noast)")
}
