package main

import (
	"bytes"
	"fmt"
	"go/parser"
	"go/token"
	"math/rand"
	"os"
	"os/exec"
	"path/filepath"
	"regexp"
	"sort"
	"strings"
	"sync"
	"sync/atomic"

	"verif/internal/corpus"
	"verif/internal/gram"
	"verif/internal/harness"
	"verif/internal/report"
)

func init() { register("C15", "exploration", c15) }

var (
	reUndef  = regexp.MustCompile(`rule '([^']+)' used but not defined`)
	reUnused = regexp.MustCompile(`rule '([^']+)' defined but not used`)
	reLeft   = regexp.MustCompile(`possible infinite left recursion in rule '([^']+)'`)
	reDup    = regexp.MustCompile(`rule '([^']+)' defined more than once`)
)

func nameSet(re *regexp.Regexp, s string) []string {
	m := map[string]bool{}
	for _, x := range re.FindAllStringSubmatch(s, -1) {
		m[x[1]] = true
	}
	out := []string{}
	for k := range m {
		out = append(out, k)
	}
	sort.Strings(out)
	return out
}

type cliResult struct {
	exit   int
	stderr string
	out    []byte
}

// externalKills counts peg processes killed by a SIGKILL this check did not send (see harness.Guard.ExternalKill);
// main() turns a non-zero count into an inconclusive run.
var externalKills atomic.Int64

// runPeg runs the real peg binary in dir on grammar text.
func runPeg(peg, dir, text string, opts ...string) cliResult {
	os.MkdirAll(dir, 0o755)
	os.WriteFile(filepath.Join(dir, "g.peg"), []byte(text), 0o644)
	os.Remove(filepath.Join(dir, "g.go"))
	args := append(append([]string{}, opts...), "-output", "g.go", "g.peg")
	cmd := exec.Command(peg, args...)
	cmd.Dir = dir
	var se bytes.Buffer
	cmd.Stderr = &se
	guard, err := harness.RunGuarded(cmd, 0, 0)
	if guard.MemKilled {
		se.WriteString(fmt.Sprintf("\nverif: peg exceeded the memory limit of %d MB and was killed (runaway allocation?)\n", harness.DefaultMemMB))
	}
	if guard.ExternalKill(0) {
		externalKills.Add(1)
	}
	res := cliResult{stderr: se.String()}
	if err != nil {
		res.exit = -1
		if ee, ok := err.(*exec.ExitError); ok {
			res.exit = ee.ExitCode()
		}
	}
	res.out, _ = os.ReadFile(filepath.Join(dir, "g.go"))
	return res
}

func crashedCLI(r cliResult) bool {
	return r.exit == 2 || r.exit < 0 || strings.Contains(r.stderr, "panic:") || strings.Contains(r.stderr, "SIGSEGV") || strings.Contains(r.stderr, "goroutine 1 [")
}

func c15(c *ctx) {
	n := tierN(c, 500, 7000)
	peg, err := c.env.BuildPeg(false)
	if err != nil {
		die("%v", err)
	}
	r := rand.New(rand.NewSource(c.env.Seed))
	type job struct {
		id   int
		g    *gram.Grammar
		text string
		tags []string
		dup  string
	}
	var jobs []*job
	if c.replay != "" {
		// --replay: the witness' grammar text, read back by the independent reader
		text, ok := witnessString(c.replay, "grammar")
		if !ok {
			die("this witness has no grammar text")
		}
		g, err := fromText(text)
		if err != nil {
			die("witness grammar cannot be read back: %v", err)
		}
		jobs = append(jobs, &job{id: 0, g: g, text: text, tags: []string{"replay"}})
		n = 0
	}
	for i := 0; i < n; i++ {
		g, tags := gram.Planted(r)
		j := &job{id: i, g: g, tags: tags}
		if i%25 == 24 {
			// duplicate definition of some rule
			k := r.Intn(len(g.Rules))
			d := g.Clone().Rules[k]
			if r.Intn(2) == 0 {
				d.E = gram.Lit("dup")
			}
			pos := r.Intn(len(g.Rules) + 1)
			g.Rules = append(g.Rules[:pos], append([]*gram.Rule{d}, g.Rules[pos:]...)...)
			j.dup = d.Name
			j.tags = append(j.tags, "duplicate-definition")
		}
		var vr *rand.Rand
		if i%3 == 0 {
			vr = rand.New(rand.NewSource(c.env.Seed*7919 + int64(i)))
		}
		j.text = gram.PrintGrammar(g, gram.PrintOpts{Package: "g", State: corpus.StateBlock, V: vr, ActionCode: func(id int) string { return fmt.Sprintf("p.actN(%d)", id) }})
		jobs = append(jobs, j)
	}
	// a rule referenced exactly 2^8 / 2^16 times (and one less, one more) from reachable rules — the blank-skipping
	// rule of a large grammar — is used; the same number of references from unreachable rules only leaves it unused
	if c.replay == "" {
		counts := []int{255, 256, 257, 512}
		if c.env.Tier == "thorough" {
			counts = append(counts, 511, 513, 1024, 65535, 65536, 65537)
		}
		for _, k := range counts {
			for _, reachable := range []bool{true, false} {
				g := &gram.Grammar{}
				per := 16
				if k > 4096 {
					per = 1024
				}
				var tops []*gram.Expr
				left := k
				for ri := 0; left > 0; ri++ {
					m := min(per, left)
					left -= m
					var kids []*gram.Expr
					for x := 0; x < m; x++ {
						kids = append(kids, gram.Ref("Sp"), gram.Lit(string(rune('a'+x%26))))
					}
					name := fmt.Sprintf("W%d", ri)
					g.Rules = append(g.Rules, &gram.Rule{Name: name, E: gram.Seq(kids...)})
					tops = append(tops, gram.Ref(name))
				}
				first := &gram.Rule{Name: "R0", E: gram.Seq(gram.Lit("r"), gram.Un(gram.KNot, gram.Dot()))}
				if reachable {
					first.E = gram.Seq(gram.Alt(tops...), gram.Un(gram.KNot, gram.Dot()))
				}
				g.Rules = append([]*gram.Rule{first}, g.Rules...)
				g.Rules = append(g.Rules, &gram.Rule{Name: "Sp", E: gram.Un(gram.KStar, gram.Lit(" "))})
				g.Number()
				tag := fmt.Sprintf("rule-referenced-%d-times-reachable=%v", k, reachable)
				jobs = append(jobs, &job{id: len(jobs), g: g, tags: []string{tag},
					text: gram.PrintGrammar(g, gram.PrintOpts{Package: "g", State: corpus.StateBlock})})
				c.run.Count("grammars_with_a_rule_referenced_2^k_times", 1)
			}
		}
	}
	var wg sync.WaitGroup
	sem := make(chan struct{}, 16)
	type outT struct{ plain, strict cliResult }
	outs := make([]outT, len(jobs))
	for i, j := range jobs {
		wg.Add(1)
		sem <- struct{}{}
		go func(i int, j *job) {
			defer wg.Done()
			defer func() { <-sem }()
			d := filepath.Join(c.env.Scratch, fmt.Sprintf("c15-%d", i))
			outs[i].plain = runPeg(peg, d, j.text)
			outs[i].strict = runPeg(peg, d, j.text, "-strict")
			os.RemoveAll(d)
		}(i, j)
	}
	wg.Wait()
	ctxSeen := map[string]int{}
	for i, j := range jobs {
		d := j.g.Diagnose()
		pl, st := outs[i].plain, outs[i].strict
		c.run.Eval(2)
		id := report.Hash(j.text)
		w := func() map[string]any {
			return map[string]any{"grammar": j.text, "planted": j.tags, "expected_undefined": d.Undefined, "expected_unused": d.Unused, "expected_left_recursive": d.LeftRec, "expected_duplicate": d.Duplicate,
				"stderr": pl.stderr, "exit": pl.exit, "strict_stderr": st.stderr, "strict_exit": st.exit, "output_bytes": len(pl.out)}
		}
		for _, t := range j.tags {
			ctxSeen[t]++
		}
		if crashedCLI(pl) || crashedCLI(st) {
			c.run.Violate("crash:"+id, "the generator crashed instead of diagnosing the grammar", w())
			continue
		}
		if len(d.Duplicate) > 0 {
			for _, r := range []cliResult{pl, st} {
				if r.exit == 0 || fmt.Sprint(nameSet(reDup, r.stderr)) != fmt.Sprint(d.Duplicate[:1]) && fmt.Sprint(nameSet(reDup, r.stderr)) != fmt.Sprint(d.Duplicate) {
					c.run.Violate("duplicate:"+id, fmt.Sprintf("a rule defined twice (%v) must be diagnosed by name with a non-zero exit", d.Duplicate), w())
					break
				}
			}
			c.run.Nontrivial(id)
			continue
		}
		same := func(kind string, re *regexp.Regexp, want []string, r cliResult, mode string) bool {
			got := nameSet(re, r.stderr)
			if fmt.Sprint(got) != fmt.Sprint(want) {
				c.run.Violate(kind+":"+mode+":"+id, fmt.Sprintf("%s (%s): reported for %v, exactly %v expected", kind, mode, got, want), w())
				return false
			}
			return true
		}
		ok := true
		for mode, r := range map[string]cliResult{"default": pl, "-strict": st} {
			ok = same("used-but-not-defined", reUndef, d.Undefined, r, mode) && ok
			ok = same("defined-but-not-used", reUnused, d.Unused, r, mode) && ok
			ok = same("left-recursion", reLeft, d.LeftRec, r, mode) && ok
		}
		if !ok {
			continue
		}
		anyDiag := len(d.Undefined)+len(d.Unused)+len(d.LeftRec) > 0
		// every stderr line must be one of the known diagnostics (nothing else is printed for these grammars)
		for _, line := range strings.Split(strings.TrimSpace(pl.stderr), "\n") {
			if line == "" {
				continue
			}
			if !reUndef.MatchString(line) && !reUnused.MatchString(line) && !reLeft.MatchString(line) {
				c.run.Violate("stray:"+id, "unexpected diagnostic line: "+line, w())
			}
		}
		switch {
		case pl.exit != 0:
			c.run.Violate("exit-default:"+id, fmt.Sprintf("without -strict generation must succeed (exit %d)", pl.exit), w())
		case len(pl.out) == 0:
			c.run.Violate("no-output:"+id, "without -strict a complete parser must be written", w())
		case anyDiag && st.exit == 0:
			c.run.Violate("strict-exit:"+id, "-strict must fail when there is a diagnostic", w())
		case !anyDiag && st.exit != 0:
			c.run.Violate("strict-clean:"+id, fmt.Sprintf("-strict failed (exit %d) on a grammar without diagnostics", st.exit), w())
		case !anyDiag && (pl.stderr != "" || st.stderr != ""):
			c.run.Violate("noise:"+id, "a grammar without diagnostics must generate silently", w())
		default:
			if _, err := parser.ParseFile(token.NewFileSet(), "g.go", pl.out, parser.SkipObjectResolution); err != nil {
				c.run.Violate("output-syntax:"+id, "output written without -strict is not a complete Go file: "+err.Error(), w())
			}
		}
		if anyDiag {
			c.run.Nontrivial(id)
			c.run.Count("grammars_with_diagnostics", 1)
		} else {
			c.run.Count("clean_grammars", 1)
		}
		if len(d.LeftRec) > 0 && len(d.Unused) > 0 {
			c.run.Sample(map[string]any{"grammar": j.text, "expected": map[string]any{"undefined": d.Undefined, "unused": d.Unused, "left_recursive": d.LeftRec}, "stderr": pl.stderr}, 2)
		}
	}
	for k, v := range ctxSeen {
		c.run.Count("planted_"+k, v)
	}
	var need []string
	for _, k := range []string{"direct", "under-query", "under-star", "under-plus", "under-and", "under-not", "under-capture", "alt-after-nonconsuming-alt", "alt-after-consuming-alt", "first-alternative", "after-optional-group"} {
		need = append(need, "planted_leftrec:"+k)
	}
	need = append(need, "planted_undefined:reachable", "planted_undefined:from-unused-rule", "planted_unused:consuming-cycle", "planted_unused:reachable-only-from-unused", "planted_unused:with-action", "planted_duplicate-definition", "planted_clean", "planted_cycle-unreachable", "clean_grammars", "grammars_with_diagnostics")
	requireCov(c, need...)
	c.run.Rule = "cases: grammars built by a diagnostic planter (clean helper library + undefined names used from reachable/unreachable rules, unreachable rules and consuming cycles, rules reachable only from unreachable ones, left-recursive cycles of length 1-4 with the recursive reference direct / under ? * + & ! <> / in a later alternative / after an optional group, behind nullable prefixes (positive) or one consuming prefix (negative), duplicate definitions, clean grammars), rule order shuffled, a third printed with spelling variants; each run through the real CLI with and without -strict. " +
		"Oracle: the sets of (kind, rule) in stderr equal gram's independent analysis (definitions, reachability, left-call graph over syntactic nullability); exit 0 + complete Go file without -strict; non-zero with -strict iff the set is non-empty; silent when clean; duplicate definitions named with a non-zero exit; never a panic. " +
		"distinct_nontrivial = distinct grammar texts with at least one expected diagnostic."
	c.run.Assume("grammar shapes on which 'can succeed without consuming' has the same answer syntactically and semantically (DESIGN 6.3)")
}
