package main

import (
	"bytes"
	"crypto/sha256"
	"encoding/hex"
	"encoding/json"
	"fmt"
	"math/rand"
	"os"
	"os/exec"
	"path/filepath"
	"regexp"
	"strings"
	"sync"

	"verif/internal/corpus"
	"verif/internal/gram"
	"verif/internal/harness"
	"verif/internal/report"
)

func init() { register("C09", "exploration", c09) }

type genRun struct {
	exit   int
	stdout string // sha256
	stderr string
	trace  string
	races  int
	raceRp string
}

var logStamp = regexp.MustCompile(`(?m)^\d{4}/\d\d/\d\d \d\d:\d\d:\d\d `)

func shaHex(b []byte) string { h := sha256.Sum256(b); return hex.EncodeToString(h[:]) }

func c09(c *ctx) {
	r := rand.New(rand.NewSource(c.env.Seed))
	peg, err := c.env.BuildPeg(false)
	if err != nil {
		die("%v", err)
	}
	pegRace, err := c.env.BuildPeg(true)
	if err != nil {
		die("%v", err)
	}
	// ---- corpus of grammar texts ----
	type gtext struct {
		name string
		text string
		diag bool
	}
	var texts []gtext
	for _, f := range []string{"peg.peg", "grammars/calculator/calculator.peg", "grammars/calculatorast/calculator.peg", "grammars/c/c.peg", "grammars/fexl/fexl.peg", "grammars/java/java_1_7.peg", "grammars/longtest/long.peg"} {
		b, err := os.ReadFile(filepath.Join(c.env.Repo, f))
		if err != nil {
			die("shipped grammar %s: %v", f, err)
		}
		texts = append(texts, gtext{f, string(b), false})
	}
	ngen := tierN(c, 60, 800)
	for i := 0; i < ngen; i++ {
		var g *gram.Grammar
		diag := false
		switch i % 4 {
		case 0:
			g, _ = gram.Planted(r)
			diag = true
			if (i/4)%2 == 0 {
				// the same diagnostics inside a grammar of 70-270 rules (anything the generator does only from a certain
				// size on — a sequential fast path for small grammars, a worker pool for large ones — has to be met with
				// warnings pending): a chain of filler rules reachable from the first rule, every third with an action
				nf := 70 + r.Intn(200)
				for k := 0; k < nf; k++ {
					kids := []*gram.Expr{gram.Lit(fmt.Sprintf("f%d", k))}
					if k%3 == 0 {
						kids = append(kids, gram.Act())
					}
					if k+1 < nf {
						kids = append(kids, gram.Un(gram.KQuery, gram.Ref(fmt.Sprintf("F%d", k+1))))
					}
					g.Rules = append(g.Rules, &gram.Rule{Name: fmt.Sprintf("F%d", k), E: gram.Seq(kids...)})
				}
				g.Rules[0].E.Kids = append(g.Rules[0].E.Kids, gram.Ref("F0"))
				g.Number()
				c.run.Count("large_grammars_with_diagnostics", 1)
			}
		case 1:
			g = gram.ChoiceHeavy(r)
		case 2:
			g = gram.Backtracky(r, nil)
		default:
			g = gram.Random(r, gram.AllOps())
		}
		txt := gram.PrintGrammar(g, gram.PrintOpts{Package: "g", State: corpus.StateBlock, ActionCode: func(id int) string { return fmt.Sprintf("p.actN(%d)", id) }})
		texts = append(texts, gtext{fmt.Sprintf("gen%d", i), txt, diag})
	}
	optSets := [][]string{nil, {"-inline", "-switch"}, {"-strict"}}
	strictOnly := map[int]bool{2: true}
	if c.env.Tier == "thorough" {
		optSets = append(optSets, []string{"-noast"}, []string{"-switch"}, []string{"-strict", "-inline"}, []string{"-strict", "-switch"})
	}
	gomax := []string{"1", "2", "4", "16"}
	K := tierN(c, 10, 24)
	KR := tierN(c, 4, 10)
	type job struct {
		ti, oi, k int
		race      bool
	}
	var jobs []job
	for ti := range texts {
		for oi := range optSets {
			if ti >= 7 && ti%2 == 1 && oi > 1 && !texts[ti].diag {
				continue
			}
			if strictOnly[oi] && !texts[ti].diag && ti >= 7 {
				continue // -strict matters where there is something to warn about (and for the shipped grammars: nothing)
			}
			for k := 0; k < K; k++ {
				jobs = append(jobs, job{ti, oi, k, false})
			}
			for k := 0; k < KR; k++ {
				jobs = append(jobs, job{ti, oi, k, true})
			}
		}
	}
	results := make([]genRun, len(jobs))
	var wg sync.WaitGroup
	sem := make(chan struct{}, 16)
	for ji, j := range jobs {
		wg.Add(1)
		sem <- struct{}{}
		go func(ji int, j job) {
			defer wg.Done()
			defer func() { <-sem }()
			d := filepath.Join(c.env.Scratch, fmt.Sprintf("c09-%d", ji))
			os.MkdirAll(d, 0o755)
			defer os.RemoveAll(d)
			os.WriteFile(filepath.Join(d, "g.peg"), []byte(texts[j.ti].text), 0o644)
			args := append(append([]string{}, optSets[j.oi]...), "-output", "-", "g.peg")
			bin := peg
			env := append(os.Environ(), "GOMAXPROCS="+gomax[(j.k+ji)%len(gomax)], fmt.Sprintf("PEG_VERIF_SCHED=%d", c.env.Seed*1000+int64(j.k)*17+int64(j.ti)))
			if j.race {
				bin = pegRace
				env = append(env, "GORACE=halt_on_error=0 atexit_sleep_ms=0 exitcode=0 log_path="+filepath.Join(d, "race"))
			} else {
				env = append(env, "PEG_VERIF_TRACE="+filepath.Join(d, "trace"))
			}
			cmd := exec.Command(bin, args...)
			cmd.Dir = d
			cmd.Env = env
			var so, se bytes.Buffer
			cmd.Stdout, cmd.Stderr = &so, &se
			memMB := harness.DefaultMemMB
			if j.race {
				memMB *= 3
			}
			guard, err := harness.RunGuarded(cmd, memMB, 0)
			if guard.MemKilled {
				se.WriteString(fmt.Sprintf("\nverif: peg exceeded the memory limit of %d MB and was killed (runaway allocation?)\n", memMB))
			}
			if guard.ExternalKill(0) {
				externalKills.Add(1)
			}
			// (peg reports a failure through log.Fatal, which prefixes the wall-clock time: not part of the warnings)
			gr := genRun{stdout: shaHex(so.Bytes()), stderr: logStamp.ReplaceAllString(se.String(), "")}
			if err != nil {
				gr.exit = -1
				if ee, ok := err.(*exec.ExitError); ok {
					gr.exit = ee.ExitCode()
				}
			}
			if b, err := os.ReadFile(filepath.Join(d, "trace")); err == nil {
				gr.trace = strings.TrimSpace(string(b))
			}
			if m, _ := filepath.Glob(filepath.Join(d, "race.*")); len(m) > 0 {
				for _, f := range m {
					b, _ := os.ReadFile(f)
					gr.races += strings.Count(string(b), "WARNING: DATA RACE")
					gr.raceRp += string(b)
				}
			}
			results[ji] = gr
		}(ji, j)
	}
	wg.Wait()
	// ---- judge (a) determinism, (b) races ----
	type key struct{ ti, oi int }
	first := map[key]int{}
	sigs := map[string]bool{}
	sigsPer := map[key]map[string]bool{}
	raceSeen := map[string]bool{}
	for ji, j := range jobs {
		gr := results[ji]
		k := key{j.ti, j.oi}
		c.run.Eval(1)
		if gr.exit == 2 && strings.Contains(gr.stderr, "panic:") || gr.exit < 0 {
			c.run.Violate("crash:"+report.Hash(texts[j.ti].text, fmt.Sprint(optSets[j.oi])), "generator crashed", map[string]any{"grammar": texts[j.ti].name, "text": texts[j.ti].text, "options": optSets[j.oi], "stderr": gr.stderr})
			continue
		}
		if gr.races > 0 {
			dk := dedupeRace(gr.raceRp)
			if !raceSeen[dk] {
				raceSeen[dk] = true
				c.run.Violate("race:"+report.Hash(dk), fmt.Sprintf("the race detector reported a data race during one generation (grammar %s, options %v)", texts[j.ti].name, optSets[j.oi]),
					map[string]any{"grammar": texts[j.ti].name, "text": texts[j.ti].text, "options": optSets[j.oi], "report": gr.raceRp})
			}
		}
		if j.race {
			c.run.Count("race_detector_processes", 1)
			// the race build must produce the same bytes as well
		} else {
			c.run.Count("determinism_processes", 1)
			if gr.trace != "" {
				sig := gr.trace
				if i := strings.Index(sig, "|"); i > 0 {
					sig = sig[:i]
				}
				sigs[shaHex([]byte(sig))] = true
				if sigsPer[k] == nil {
					sigsPer[k] = map[string]bool{}
				}
				sigsPer[k][shaHex([]byte(sig))] = true
			}
		}
		f, ok := first[k]
		if !ok {
			first[k] = ji
			continue
		}
		base := results[f]
		// the race detector prints its reports on stderr unless log_path is set (it is), so stderr is comparable
		if gr.stdout != base.stdout || gr.stderr != base.stderr || gr.exit != base.exit {
			c.run.Violate("nondeterministic:"+report.Hash(texts[j.ti].text, fmt.Sprint(optSets[j.oi])),
				fmt.Sprintf("two generations of the same grammar with the same options and arguments differ (grammar %s, options %v): exit %d/%d, stdout sha %s/%s", texts[j.ti].name, optSets[j.oi], base.exit, gr.exit, base.stdout[:12], gr.stdout[:12]),
				map[string]any{"grammar": texts[j.ti].name, "text": texts[j.ti].text, "options": optSets[j.oi], "stderr_a": base.stderr, "stderr_b": gr.stderr, "stdout_sha_a": base.stdout, "stdout_sha_b": gr.stdout, "run_a": fmt.Sprint(jobs[f]), "run_b": fmt.Sprint(j)})
		}
	}
	multi := 0
	for k, m := range sigsPer {
		if len(m) >= 2 {
			multi++
			c.run.Nontrivial(report.Hash(texts[k.ti].text, fmt.Sprint(optSets[k.oi])))
		}
	}
	c.run.Count("distinct_interleaving_signatures", len(sigs))
	c.run.Count("grammar_option_pairs_seen_under_2plus_interleavings", multi)
	c.run.Count("grammar_option_pairs", len(first))
	diagN := 0
	for _, t := range texts {
		if t.diag {
			diagN++
		}
	}
	c.run.Count("grammars_with_diagnostics_planted", diagN)

	// ---- (c) concurrent Compile calls on independent trees in one process, under the race detector ----
	fe := buildFront(c, filepath.Join(c.env.Repo, "peg.peg.go"), true, "c09race")
	var subs []feReq
	nsub := tierN(c, 16, 60)
	for i := 0; i < nsub && i < len(texts); i++ {
		t := texts[(i*5)%len(texts)]
		if len(t.text) > 20000 && i%3 != 0 {
			t = texts[7+i%(len(texts)-7)]
		}
		subs = append(subs, feReq{Text: t.text, Inline: i%2 == 0, Switch: i%3 == 0, Compile: true, Strict: true, Args: []string{"peg", "x"}})
		if i%4 == 0 {
			subs = append(subs, feReq{Text: t.text, Inline: i%2 == 0, Switch: i%3 == 0, Compile: true, Strict: true, Args: []string{"peg", "x"}}) // identical twin
		}
	}
	// every fourth sub-request generates twice in a row with one shared argument slice
	for i := range subs {
		subs[i].Twice = i%4 == 1
	}
	// at least a third of the concurrently compiled grammars reference undefined rules (stub creation is live)
	for i := 0; i < len(subs)/3; i++ {
		g, _ := gram.Planted(r)
		g.Rules[0].E = gram.Seq(g.Rules[0].E, gram.Un(gram.KQuery, gram.Ref(fmt.Sprintf("Missing%d", i))), gram.Un(gram.KQuery, gram.Ref("MissingToo")))
		txt := gram.PrintGrammar(g, gram.PrintOpts{Package: "g", State: corpus.StateBlock, ActionCode: func(id int) string { return fmt.Sprintf("p.actN(%d)", id) }})
		subs = append(subs, feReq{Text: txt, Inline: i%2 == 0, Switch: i%3 == 0, Compile: true, Strict: true, Args: []string{"peg", "x"}})
	}
	seqRes := fe.run(subs)
	for i, sr := range seqRes {
		if sr.Repeat != "" {
			c.run.Violate("repeat:"+report.Hash(subs[i].Text), "generating twice in one process with the same argument list gave different results: "+sr.Repeat, map[string]any{"text": subs[i].Text, "detail": sr.Repeat})
		}
		if subs[i].Twice {
			c.run.Count("repeated_generations_with_shared_arguments", 1)
		}
	}
	concReq := []feReq{{Conc: subs, Gor: 16, Reps: tierN(c, 2, 6)}, {Conc: subs[:len(subs)/2], Gor: 4, Reps: tierN(c, 2, 8)}}
	concRes := fe.run(concReq)
	for qi, cr := range concRes {
		if cr.Lost && fe.ExternalKills > 0 {
			continue // killed from outside: inconclusive (recorded by the front-end runner)
		}
		if cr.Fatal != "" || cr.Lost {
			c.run.Violate("conc-fatal", "front-end driver died during concurrent Compile calls: "+firstLine(cr.Fatal), map[string]any{"stderr": cr.Fatal})
			continue
		}
		for i, m := range cr.Conc {
			want := seqRes[i]
			for js, cnt := range m {
				var got feRes
				json.Unmarshal([]byte(js), &got)
				c.run.Eval(cnt)
				c.run.Count("concurrent_compile_calls", cnt)
				if got.Accepted != want.Accepted || got.TreeSHA != want.TreeSHA || got.CodeSHA != want.CodeSHA || got.CompileErr != want.CompileErr || got.Panic != want.Panic || got.Repeat != want.Repeat {
					c.run.Violate("conc-differs:"+report.Hash(subs[i].Text, fmt.Sprint(qi)), "a Compile running concurrently with others produced something else than alone",
						map[string]any{"text": subs[i].Text, "alone": want, "concurrent": got})
				}
			}
		}
	}
	seen := map[string]bool{}
	for _, rr := range fe.raceReports() {
		k := dedupeRace(rr)
		if !seen[k] {
			seen[k] = true
			c.run.Violate("race-inproc:"+report.Hash(k), "the race detector reported a data race between concurrent generations of independent grammars in one process", map[string]any{"report": tail(rr, 6000)})
		}
	}
	c.run.Count("race_reports", len(seen)+len(raceSeen))
	requireCov(c, "determinism_processes", "race_detector_processes", "concurrent_compile_calls", "grammars_with_diagnostics_planted")
	if len(sigs) < 20 {
		c.run.Incon(fmt.Sprintf("only %d distinct interleavings of the two analysis goroutines were observed", len(sigs)))
	}
	c.run.Sample(map[string]any{"grammar": texts[1].name, "options": optSets[1], "repetitions": K, "GOMAXPROCS": gomax, "distinct_interleavings_for_this_pair": len(sigsPer[key{1, 1}])}, 3)
	c.run.Rule = "cases: the shipped grammars plus generated ones (a quarter with planted diagnostics so that the warning path, stub creation and unused-rule path are live; half of those inside a grammar of 70-270 rules) x option sets; each (grammar, options, argument list) is generated K times in separate processes with GOMAXPROCS in {1,2,4,16} and distinct seeds of the build-tagged schedule perturbation hook (yield / 1-200us sleep at every step of the two concurrent analysis goroutines), with the hook's interleaving log on (non-race build) and again under the race detector with the log off (so that the hook adds no synchronisation); " +
		"finally 16 and 4 goroutines run parse+Execute+Compile on independent trees (distinct and identical texts, a third with undefined names; a quarter generating twice with one shared argument slice) in one -race process whose very first activity is that concurrent batch. Oracle: identical exit status, stderr and sha256(stdout) for all repetitions of a pair; zero race reports; concurrent Compile results equal the sequential ones. " +
		"distinct_nontrivial = distinct (grammar, options) pairs that were observed under at least two different interleavings of the analysis goroutines (hook log)."
	c.run.Assume("schedules are those produced by the Go scheduler under the hook's perturbation; not replayable bit for bit (no rr); the replay of a race is the detector's report plus the seed")
}
