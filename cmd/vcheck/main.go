// vcheck: per-property runtime monitors for pointlander/peg. See /verif/DESIGN.md.
package main

import (
	"fmt"
	"os"

	"verif/internal/harness"
	"verif/internal/report"
)

type ctx struct {
	env    *harness.Env
	run    *report.Run
	replay string
}

var checks = map[string]struct {
	level string
	fn    func(*ctx)
}{}

func register(id, level string, fn func(*ctx)) {
	checks[id] = struct {
		level string
		fn    func(*ctx)
	}{level, fn}
}

func main() {
	if len(os.Args) < 3 {
		fmt.Fprintln(os.Stderr, "usage: vcheck <Cnn> <quick|thorough> | vcheck <Cnn> --replay <file>")
		os.Exit(2)
	}
	id, tier := os.Args[1], os.Args[2]
	c, ok := checks[id]
	if !ok {
		fmt.Fprintln(os.Stderr, "unknown property", id)
		os.Exit(2)
	}
	replay := ""
	if tier == "--replay" {
		if len(os.Args) < 4 {
			fmt.Fprintln(os.Stderr, "--replay needs a file")
			os.Exit(2)
		}
		replay = os.Args[3]
		tier = "quick"
	}
	if t := os.Getenv("VERIF_TIER"); t != "" && replay == "" && (t == "quick" || t == "thorough") && len(os.Args) == 2 {
		tier = t
	}
	if tier != "quick" && tier != "thorough" {
		fmt.Fprintln(os.Stderr, "tier must be quick or thorough")
		os.Exit(2)
	}
	env := harness.FromEnv(id, tier)
	run := report.New(id, tier, env.Seed, c.level)
	run.NoEvidence = replay != ""
	cx := &ctx{env: env, run: run, replay: replay}
	code := 2
	func() {
		defer env.Cleanup()
		defer func() {
			if r := recover(); r != nil {
				if f, ok := r.(fatal); ok {
					fmt.Fprintln(os.Stderr, "INCONCLUSIVE (infrastructure):", string(f))
					run.Incon(string(f))
					code = run.Finish()
					return
				}
				panic(r)
			}
		}()
		c.fn(cx)
		if n := externalKills.Load(); n > 0 {
			run.Incon(fmt.Sprintf("%d peg processes were killed from outside (SIGKILL not sent by this check: the kernel's OOM killer under other workloads?)", n))
		}
		code = run.Finish()
	}()
	os.Exit(code)
}

type fatal string

func die(format string, a ...any) { panic(fatal(fmt.Sprintf(format, a...))) }
