package main

import (
	"bytes"
	"fmt"
	"math/rand"
	"os"
	"os/exec"
	"path/filepath"
	"strings"

	"verif/internal/corpus"
	"verif/internal/gram"
	"verif/internal/report"
)

func init() { register("C17", "exploration", c17) }

// copyTree copies the repository working tree (without .git) to dst.
func copyTree(src, dst string) error {
	return filepath.Walk(src, func(p string, info os.FileInfo, err error) error {
		if err != nil {
			return err
		}
		rel, _ := filepath.Rel(src, p)
		if rel == ".git" || strings.HasPrefix(rel, ".git"+string(filepath.Separator)) {
			if info.IsDir() {
				return filepath.SkipDir
			}
			return nil
		}
		if info.IsDir() {
			return os.MkdirAll(filepath.Join(dst, rel), 0o755)
		}
		if !info.Mode().IsRegular() {
			return nil
		}
		b, err := os.ReadFile(p)
		if err != nil {
			return err
		}
		return os.WriteFile(filepath.Join(dst, rel), b, info.Mode().Perm())
	})
}

// goRun runs the go tool in dir with stdin from a file and stdout to a file.
func goRun(c *ctx, dir, stdinFile, stdoutFile string, args ...string) (string, error) {
	cmd := exec.Command(c.env.Go, args...)
	cmd.Dir = dir
	cmd.Env = c.env.GoEnv()
	if stdinFile != "" {
		f, err := os.Open(stdinFile)
		if err != nil {
			return "", err
		}
		defer f.Close()
		cmd.Stdin = f
	}
	var se bytes.Buffer
	cmd.Stderr = &se
	if stdoutFile != "" {
		f, err := os.Create(stdoutFile)
		if err != nil {
			return "", err
		}
		defer f.Close()
		cmd.Stdout = f
	} else {
		cmd.Stdout = &se
	}
	err := cmd.Run()
	return se.String(), err
}

func c17(c *ctx) {
	r := rand.New(rand.NewSource(c.env.Seed))
	work := filepath.Join(c.env.Scratch, "c17-repo")
	if err := copyTree(c.env.Repo, work); err != nil {
		die("copying the repository: %v", err)
	}
	defer os.RemoveAll(work)
	checkedIn, err := os.ReadFile(filepath.Join(c.env.Repo, "peg.peg.go"))
	if err != nil {
		die("%v", err)
	}

	// ---------- (a) the bootstrap chain, stage by stage (the commands of bootstrap.bash) ----------
	bdir := filepath.Join(work, "cmd", "peg-bootstrap")
	os.Remove(filepath.Join(work, "bootstrap", "bootstrap.peg.go"))
	type stage struct {
		name, in, out string
		args          []string
	}
	stages := []stage{
		{"0: hand-built tree (go run ../../bootstrap)", "", "peg0.peg.go", []string{"run", "../../bootstrap"}},
		{"1: peg0 reads bootstrap.peg", "bootstrap.peg", "peg1.peg.go", []string{"run", "-tags", "bootstrap", "main.go", "peg0.peg.go"}},
		{"2: peg1 reads peg.bootstrap.peg", "peg.bootstrap.peg", "peg2.peg.go", []string{"run", "-tags", "bootstrap", "main.go", "peg1.peg.go"}},
		{"3: peg2 reads peg.peg", "../../peg.peg", "peg3.peg.go", []string{"run", "-tags", "bootstrap", "main.go", "peg2.peg.go"}},
		{"4: peg3 reads peg.peg", "../../peg.peg", "peg-bootstrap.peg.go", []string{"run", "-tags", "bootstrap", "main.go", "peg3.peg.go"}},
		{"5: peg-bootstrap reads peg.peg", "../../peg.peg", "../../peg.peg.go", []string{"run", "-tags", "bootstrap", "main.go", "peg-bootstrap.peg.go"}},
	}
	chainOK := true
	for _, st := range stages {
		in := ""
		if st.in != "" {
			in = filepath.Join(bdir, st.in)
		}
		out, err := goRun(c, bdir, in, filepath.Join(bdir, st.out), st.args...)
		c.run.Eval(1)
		c.run.Count("bootstrap_stages_run", 1)
		if err != nil {
			c.run.Violate("bootstrap-stage:"+st.name[:1], "bootstrap stage "+st.name+" failed: "+firstLine(strings.TrimSpace(out)), map[string]any{"stage": st.name, "output": tail(out, 3000)})
			chainOK = false
			break
		}
		c.run.Nontrivial("stage" + st.name[:1])
	}
	if chainOK {
		s4, _ := os.ReadFile(filepath.Join(bdir, "peg-bootstrap.peg.go"))
		s5, _ := os.ReadFile(filepath.Join(work, "peg.peg.go"))
		if !bytes.Equal(stripHeader(s4), stripHeader(s5)) {
			c.run.Violate("bootstrap-fixpoint", "the last two bootstrap stages (peg.peg read by two successive generations) emit different code: no fixed point", map[string]any{"first_difference": firstDiff(stripHeader(s4), stripHeader(s5))})
		}
		// final rebuild: go tool peg -inline -switch peg.peg
		out, err := goRun(c, work, "", "", "tool", "peg", "-inline", "-switch", "peg.peg")
		c.run.Eval(1)
		if err != nil {
			c.run.Violate("bootstrap-final", "the final rebuild (go tool peg -inline -switch peg.peg) failed: "+firstLine(strings.TrimSpace(out)), map[string]any{"output": tail(out, 3000)})
		} else {
			final, _ := os.ReadFile(filepath.Join(work, "peg.peg.go"))
			if !bytes.Equal(final, checkedIn) {
				c.run.Violate("bootstrap-identical", "the bootstrap chain does not reproduce the checked-in peg.peg.go byte for byte: "+firstDiff(final, checkedIn), map[string]any{"first_difference": firstDiff(final, checkedIn)})
			} else {
				c.run.Count("bootstrap_chain_reproduces_checked_in_front_end", 1)
			}
		}
	}

	// ---------- (b) front ends regenerated under the four AST option combinations vs the checked-in one ----------
	peg, err := c.env.BuildPeg(false)
	if err != nil {
		die("%v", err)
	}
	pegPeg := filepath.Join(c.env.Repo, "peg.peg")
	fes := map[string]*frontEnd{"checked-in": buildFront(c, filepath.Join(c.env.Repo, "peg.peg.go"), false, "c17-checkedin")}
	feNames := []string{"checked-in"}
	for _, v := range combos4 {
		d := filepath.Join(c.env.Scratch, "c17-fe-"+v.name)
		os.MkdirAll(d, 0o755)
		args := append(append([]string{}, v.opts...), "-strict", "-output", filepath.Join(d, "fe.go"), pegPeg)
		cmd := exec.Command(peg, args...)
		out, err := cmd.CombinedOutput()
		c.run.Eval(1)
		if err != nil || len(out) > 0 {
			c.run.Violate("regen:"+v.name, fmt.Sprintf("regenerating the front end from peg.peg with %v -strict failed or warned: %s", v.opts, firstLine(string(out))), map[string]any{"options": v.opts, "output": string(out)})
			continue
		}
		fes[v.name] = buildFront(c, filepath.Join(d, "fe.go"), false, "c17-"+v.name)
		feNames = append(feNames, v.name)
	}
	texts := grammarTexts(c, r, tierN(c, 250, 4000), tierN(c, 500, 8000), tierN(c, 80, 1000))
	reqs := make([]feReq, len(texts))
	for i, t := range texts {
		reqs[i] = feReq{Text: t.text, Compile: true, Strict: true, Inline: i%2 == 0, Switch: i%3 != 0, Args: []string{"peg", "g.peg"}}
	}
	base := fes["checked-in"].run(append([]feReq{}, reqs...))
	for _, name := range feNames[1:] {
		got := fes[name].run(append([]feReq{}, reqs...))
		for i := range texts {
			c.run.Eval(1)
			c.run.Count("front_end_comparisons", 1)
			b, g := base[i], got[i]
			if b.Lost || g.Lost {
				continue
			}
			if b.Accepted != g.Accepted || b.TreeSHA != g.TreeSHA || b.CodeSHA != g.CodeSHA || b.CompileErr != g.CompileErr || (b.Panic != "") != (g.Panic != "") || (b.Fatal != "") != (g.Fatal != "") {
				what := "emits different code"
				switch {
				case b.Accepted != g.Accepted:
					what = fmt.Sprintf("accepts=%v while the checked-in front end accepts=%v", g.Accepted, b.Accepted)
				case b.TreeSHA != g.TreeSHA:
					what = "builds a different rule tree"
				case b.CompileErr != g.CompileErr:
					what = "reports different diagnostics"
				}
				c.run.Violate("frontend:"+name+":"+report.Hash(texts[i].text), fmt.Sprintf("the front end regenerated from peg.peg with options of '%s' %s", name, what),
					map[string]any{"text": texts[i].text, "kind": texts[i].kind, "front_end": name, "checked_in": map[string]any{"accepted": b.Accepted, "tree": b.TreeSHA, "code": b.CodeSHA, "err": b.CompileErr, "panic": b.Panic + b.Fatal},
						"regenerated": map[string]any{"accepted": g.Accepted, "tree": g.TreeSHA, "code": g.CodeSHA, "err": g.CompileErr, "panic": g.Panic + g.Fatal}})
			} else if b.Accepted {
				c.run.Count("texts_accepted_by_all", 1)
				if name == "both" {
					c.run.Nontrivial("t" + report.Hash(texts[i].text))
				}
			} else {
				c.run.Count("texts_rejected_by_all", 1)
			}
		}
	}

	// ---------- (c) shipped grammars: -strict, four option combinations agree, shipped tests pass ----------
	ships := shippedGrammars(c.env.Repo)
	cp := corpus.New(c.env, peg, false, "c17-shipped")
	defer cp.Remove()
	for _, s := range ships {
		for _, v := range combos4 {
			j := s.job(c.env.Repo, v)
			j.Opts = append([]string{"-strict"}, j.Opts...)
			cp.Add(j)
		}
	}
	if err := cp.Build(); err != nil {
		die("shipped corpus: %v", err)
	}
	var sreqs []corpus.Req
	type sk struct {
		s  shippedG
		in string
		v  string
	}
	var sks []sk
	nin := tierN(c, 120, 2500)
	for _, s := range ships {
		ok := true
		for _, v := range combos4 {
			j := cp.Job("s" + s.name + v.name)
			c.run.Eval(1)
			if j.GenExit != 0 || strings.TrimSpace(j.GenStderr) != "" {
				c.run.Violate("shipped-strict:"+s.name+v.name, fmt.Sprintf("%s does not generate silently under -strict %v: %s", s.pegPath, v.opts, firstLine(j.GenStderr)), map[string]any{"stderr": j.GenStderr, "exit": j.GenExit})
				ok = false
			} else if !j.Compiled {
				c.run.Violate("shipped-compile:"+s.name+v.name, fmt.Sprintf("%s generated with %v does not compile: %s", s.pegPath, v.opts, firstLine(j.CompErr)), map[string]any{"go_build": j.CompErr})
				ok = false
			}
		}
		if !ok {
			continue
		}
		ins := append(append([]string{}, s.samples...), hostileInputs(r, s.samples, nin, false)...)
		ins = append(ins, derivedInputs(r, s.grammar(c.env.Repo), s.samples, nin)...)
		// token-level mutations: delete / duplicate / swap whitespace-separated words of the samples
		for k := 0; k < nin/2; k++ {
			w := strings.Fields(s.samples[r.Intn(len(s.samples))])
			if len(w) > 400 {
				o := r.Intn(len(w) - 300)
				w = w[o : o+300]
			}
			if len(w) < 2 {
				continue
			}
			i, j := r.Intn(len(w)), r.Intn(len(w))
			switch r.Intn(3) {
			case 0:
				w = append(w[:i:i], w[i+1:]...)
			case 1:
				w = append(w[:i:i], append([]string{w[j]}, w[i:]...)...)
			default:
				w[i], w[j] = w[j], w[i]
			}
			ins = append(ins, strings.Join(w, " "))
		}
		for _, in := range ins {
			for _, v := range combos4 {
				sreqs = append(sreqs, corpus.Req{Pkg: "s" + s.name + v.name, In: []byte(in), Memo: true})
				sks = append(sks, sk{s, in, v.name})
			}
		}
	}
	sres, err := cp.Run(sreqs, corpus.RunOpts{CPUSeconds: 240, WallSeconds: 2400})
	if err != nil {
		die("shipped run: %v", err)
	}
	shipG := map[string]*gram.Grammar{}
	for _, s := range ships {
		shipG[s.name] = s.grammar(c.env.Repo)
	}
	for i := 0; i+3 < len(sres); i += 4 {
		p := sres[i] // plain
		if !p.Lost && p.Fatal == "" && p.Panic == "" {
			if why := refJudge(shipG[sks[i].s.name], sks[i].in, &p); why != "" {
				in := sks[i].in
				if len(in) > 2000 {
					in = in[:2000] + "...(truncated)"
				}
				c.run.Violate("shipped-ref:"+report.Hash(sks[i].s.name, sks[i].in), sks[i].s.pegPath+": "+why, map[string]any{"grammar": sks[i].s.pegPath, "input": in})
			} else {
				c.run.Count("shipped_results_checked_against_reference", 1)
			}
		}
		key := func(r *corpus.Res) string {
			if r.Fatal != "" || r.Panic != "" {
				return "CRASH " + r.Panic + firstLine(r.Fatal)
			}
			if r.OK {
				return "OK " + tokStrings(r.Toks) + "\n" + r.Sprint
			}
			return "REJECT"
		}
		for k := 1; k < 4; k++ {
			q := sres[i+k]
			c.run.Eval(1)
			c.run.Count("shipped_parser_comparisons", 1)
			if p.Lost || q.Lost {
				continue
			}
			if key(&p) != key(&q) {
				in := sks[i].in
				if len(in) > 2000 {
					in = in[:2000] + "...(truncated)"
				}
				c.run.Violate("shipped-differs:"+report.Hash(sks[i].s.name, sks[i].in, sks[i+k].v), fmt.Sprintf("%s: the parser generated with options '%s' differs from the option-free one on a mutated sample input", sks[i].s.pegPath, sks[i+k].v),
					map[string]any{"grammar": sks[i].s.pegPath, "input": in, "plain": firstLines(key(&p), 6), "other": firstLines(key(&q), 6), "options": sks[i+k].v})
			}
		}
		if p.OK {
			c.run.Count("shipped_inputs_accepted", 1)
		} else {
			c.run.Count("shipped_inputs_rejected", 1)
			c.run.Nontrivial("s" + report.Hash(sks[i].s.name, sks[i].in))
		}
	}
	// the shipped tests against freshly generated parsers (in the scratch copy of the repository)
	if chainOK {
		for _, s := range ships {
			if s.name == "peg" {
				continue
			}
			out, err := exec.Command(peg, "-strict", "-switch", "-inline", filepath.Join(work, s.pegPath)).CombinedOutput()
			if err != nil || len(out) > 0 {
				c.run.Violate("shipped-generate:"+s.name, "generating "+s.pegPath+" the way its go:generate line does failed: "+firstLine(string(out)), map[string]any{"output": string(out)})
			}
		}
		out, err := c.env.RunGo(work, "test", "-short", "-count=1", "./grammars/...")
		c.run.Eval(1)
		if err != nil {
			c.run.Violate("shipped-tests", "the shipped grammar tests fail against freshly generated parsers: "+firstLine(strings.TrimSpace(out)), map[string]any{"go_test": tail(out, 4000)})
		} else {
			c.run.Count("shipped_test_packages_passing", strings.Count(out, "\nok")+btoi(strings.HasPrefix(out, "ok")))
		}
	}
	c.run.Sample(map[string]any{"stage": "5: peg-bootstrap reads peg.peg, then go tool peg -inline -switch peg.peg", "expect": "byte-identical to the checked-in peg.peg.go"}, 3)
	c.run.Sample(map[string]any{"front_ends": feNames, "texts": len(texts), "compared": "accept/reject, sha256 of the rule tree dump, sha256 of the emitted code, diagnostics"}, 3)
	requireCov(c, "bootstrap_stages_run", "bootstrap_chain_reproduces_checked_in_front_end", "front_end_comparisons", "texts_accepted_by_all", "texts_rejected_by_all", "shipped_parser_comparisons", "shipped_inputs_rejected", "shipped_inputs_accepted", "shipped_test_packages_passing")
	c.run.Rule = "(a) the six generations of bootstrap.bash are run stage by stage on a scratch copy of the tree (every stage must build and run, the last two must agree below the header line, and after the final 'go tool peg -inline -switch peg.peg' the file must be byte-identical to the checked-in peg.peg.go); " +
		"(b) the front end is regenerated from peg.peg under {}, -inline, -switch, -inline -switch (-strict, silent), each compiled into a driver, and all are fed the same texts as the checked-in front end (shipped grammars, generated grammars with spelling variants, syntax-level mutants, random strings): accept/reject, rule tree, emitted code and diagnostics must agree for every text; " +
		"(c) every shipped grammar must generate silently under -strict for the four combinations; the four parsers must agree (verdict, tokens, printed tree) on the sample inputs, on byte- and word-level mutations of them, on random derivations from the grammar's start rule and on fragments derived from arbitrary rules spliced into the samples, and the option-free parser must agree with the reference interpreter run on the grammar read back from the .peg file; the shipped *_test.go files must pass against freshly generated parsers. " +
		"distinct_nontrivial = bootstrap stages passed + distinct texts accepted by all front ends (counted once) + distinct mutated inputs rejected by the shipped parsers."
	c.run.Assume("a -noast front end is not a front end (main.go needs Execute); the furthest-failure token is not compared across -switch (DESIGN 6.2)")
}

func btoi(b bool) int {
	if b {
		return 1
	}
	return 0
}

func firstLines(s string, n int) string {
	l := strings.SplitN(s, "\n", n+1)
	if len(l) > n {
		l = l[:n]
	}
	return strings.Join(l, "\n")
}
