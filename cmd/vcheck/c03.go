package main

import (
	"strings"
	"fmt"
	"math/rand"

	"verif/internal/corpus"
	"verif/internal/gram"
	"verif/internal/ref"
	"verif/internal/report"
)

func init() {
	register("C03", "exploration", c03)
	register("C04", "exploration", c04)
	register("C05", "exploration", c05)
	register("C06", "exploration", c06)
}

// backtrackCases: the shared-prefix profile (5/8) mixed with the all-operator (1/4) and wide-choice (1/8) profiles.
func backtrackCases(c *ctx, n int, nIn int, probes bool, inline bool) []*gcase {
	r := rand.New(rand.NewSource(c.env.Seed))
	var cases []*gcase
	for i := 0; i < n; i++ {
		var g *gram.Grammar
		alpha := []rune("abc\né😀")
		if i%8 == 5 {
			// wide choices (also under & and !): the shapes peg's -switch rewrites
			g = gram.ChoiceHeavy(r)
			alpha = append([]rune("abcdefgz"), g.Runes()...)
		} else if i%8 == 1 {
			// an operator table: overlapping alternatives whose order is their meaning, each with its own action
			g = gram.Operators(r)
			alpha = append([]rune(" 09af"), g.Runes()...)
		} else if i%4 == 3 {
			p := gram.AllOps()
			p.WCapture, p.WAction, p.WAnd, p.WNot, p.LRef, p.MinRules = 4, 4, 3, 3, 8, 2
			p.EnterProbes = probes && i%8 == 3
			g = gram.Random(r, p)
			alpha = p.Alphabet
		} else {
			g = gram.Backtracky(r, alpha)
			if probes && i%2 == 0 {
				gram.Finish(g, &gram.Profile{EnterProbes: true})
			}
		}
		cs := &gcase{id: i, g: g, inline: inline}
		cs.entries = entriesFor(r, g, nIn, !inline, 3, alpha)
		cases = append(cases, cs)
	}
	return cases
}

func c03(c *ctx) {
	cases := backtrackCases(c, tierN(c, 240, 5000), 16, false, false)
	for i, cs := range cases {
		cs.blankActs = i%2 == 1 // (C03 does not run Execute: the tokens are the observable)
	}
	cfgs := []config{{name: "memo", v: vPlain, memo: true}, {name: "nomemo", v: vPlain}, {name: "size1", v: vPlain, memo: true, size: 1}, {name: "size4", v: vPlain, size: 4}, {name: "both", v: vBoth, memo: true}}
	// more initial capacities, so that for many inputs the token count lands exactly on / one past the capacity
	for _, sz := range []int{2, 3, 5, 8, 13, 21} {
		cfgs = append(cfgs, config{name: fmt.Sprintf("size%d", sz), v: vPlain, memo: sz%2 == 1, size: sz})
	}
	f := &family{c: c, tag: "c03", configs: cfgs, noexec: true, history: []string{"memo", "both"}, pairs: []string{"memo"}, retries: []string{"memo", "nomemo"}, reinit: true}
	f.judge = func(cs *gcase, e entry, it *ref.Interp, refOK bool, refEnd int, res map[string]*corpus.Res) {
		covAccumulate(c, it)
		id := report.Hash(cs.text, fmt.Sprint(e.rule), e.input)
		want := refTokStrings(it.Toks)
		for _, cf := range cfgs {
			r := res[cf.name]
			if r == nil {
				continue
			}
			c.run.Eval(1)
			w := func() map[string]any {
				return witness(cs, e, map[string]any{"config": cf.name, "ref_verdict": refOK, "ref_tokens": want, "got_verdict": r.OK, "got_tokens": tokStrings(r.Toks), "panic": r.Panic, "fatal": r.Fatal})
			}
			if m := crashed(r); m != nil {
				c.run.Violate(m.kind+":"+cf.name+":"+id, m.detail, w())
				continue
			}
			if r.OK != refOK {
				c.run.Violate("verdict:"+cf.name+":"+id, fmt.Sprintf("verdict %v, reference %v (a C01 matter, observed here)", r.OK, refOK), w())
				continue
			}
			if !r.OK {
				continue
			}
			if inv := tokenInvariants(r.Toks, e.ruleName(cs.g), r.NRunes); inv != "" {
				c.run.Violate("invariant:"+cf.name+":"+id, "token stream invariant broken: "+inv, w())
			} else if got := tokStrings(r.Toks); got != want {
				c.run.Violate("tokens:"+cf.name+":"+id, fmt.Sprintf("token stream is not the post-order record of the derivation (config %s, input %q)", cf.name, e.input), w())
			} else if int(r.Toks[len(r.Toks)-1].E) != refEnd {
				c.run.Violate("span:"+cf.name+":"+id, "entry token does not span the consumed prefix", w())
			}
		}
		if refOK && (it.Cov["nonempty_tokens_discarded"] > 0) {
			c.run.Nontrivial(id)
		}
		if refOK {
			for _, sz := range []int{1, 2, 3, 4, 5, 8, 13, 21} {
				if len(it.Toks) == sz {
					c.run.Count("token_count_equals_initial_capacity", 1)
				} else if len(it.Toks) == sz+1 {
					c.run.Count("token_count_one_past_initial_capacity", 1)
				}
			}
		}
		if refOK && len(it.Toks) > 3 {
			c.run.Sample(map[string]any{"grammar": cs.text, "entry": e.ruleName(cs.g), "input": e.input, "tokens": want, "tokens_discarded_during_parse": it.Cov["tokens_discarded"]}, 3)
		}
	}
	f.run(cases)
	requireCov(c, "token_count_equals_initial_capacity", "token_count_one_past_initial_capacity", "ref_nonempty_tokens_discarded_lookahead", "ref_nonempty_tokens_discarded_seqfail", "ref_capture_discarded_lookahead", "ref_action_discarded_seqfail", "ref_action_discarded_lookahead", "ref_seq_failed_after_tokens", "ref_capture_completed_in_lookahead", "retry_success_after_failed_attempts")
	c.run.Rule = "cases: shared-prefix grammars (alternatives repeating a prefix of rule calls, captures and actions before the point of failure; repetitions whose last iteration fails after writing tokens; captures/actions/rule calls inside & and !) plus all-operator grammars; multi-byte alphabet; token buffer Size unset/1/2/3/4/5/8/13/21 (the evidence counts how often the token count landed exactly on / one past the initial capacity), memo on/off, plus -inline -switch; every rule used as entry. " +
		"Oracle: the token list (rule, begin, end in runes) equals the reference interpreter's post-order record of the successful derivation, plus reference-free invariants (bounds, last token = entry rule over the consumed prefix, laminar post-order). " +
		"distinct_nontrivial = distinct accepted (grammar, entry, input) during whose parse the reference discarded at least one non-empty token on backtracking or at the end of a lookahead."
	c.run.Assume("well-formed grammars; tokens after a failed parse are unspecified and not observed")
}

func c04(c *ctx) {
	cases := backtrackCases(c, tierN(c, 240, 5000), 16, false, false)
	cfgs := []config{{name: "plain", v: vPlain, memo: true}, {name: "inline", v: vInline, memo: true}, {name: "nomemo", v: vPlain}, {name: "switch", v: vSwitch, memo: true}, {name: "treefirst", v: vPlain, memo: true, treeFirst: true}}
	f := &family{c: c, tag: "c04", configs: cfgs, history: []string{"plain", "switch"}, reinit: true}
	f.judge = func(cs *gcase, e entry, it *ref.Interp, refOK bool, refEnd int, res map[string]*corpus.Res) {
		covAccumulate(c, it)
		id := report.Hash(cs.text, fmt.Sprint(e.rule), e.input)
		want := refTraceString(it.ActionTrace())
		for _, cf := range cfgs {
			r := res[cf.name]
			if r == nil {
				continue
			}
			c.run.Eval(1)
			w := func() map[string]any {
				return witness(cs, e, map[string]any{"config": cf.name, "ref_verdict": refOK, "ref_trace": want, "got_verdict": r.OK, "got_trace": traceString(r.Trace), "got_tokens": tokStrings(r.Toks), "panic": r.Panic, "fatal": r.Fatal})
			}
			if m := crashed(r); m != nil {
				c.run.Violate(m.kind+":"+cf.name+":"+id, m.detail, w())
				continue
			}
			if r.OK != refOK {
				c.run.Violate("verdict:"+cf.name+":"+id, fmt.Sprintf("verdict %v, reference %v (a C01 matter, observed here)", r.OK, refOK), w())
				continue
			}
			if !r.OK {
				continue
			}
			if got := traceString(r.Trace); got != want {
				c.run.Violate("trace:"+cf.name+":"+id, fmt.Sprintf("Execute() ran %s, the derivation's actions are %s (config %s, input %q)", got, want, cf.name, e.input), w())
			}
		}
		nact := len(it.ActionTrace())
		if refOK && nact > 0 {
			c.run.Count("accepted_with_actions", 1)
			if it.Cov["action_reached"] > nact {
				c.run.Nontrivial(id) // some action was reached in an abandoned branch or lookahead and must not run
			}
			c.run.Sample(map[string]any{"grammar": cs.text, "entry": e.ruleName(cs.g), "input": e.input, "expected_execute_trace": want, "actions_reached_while_parsing": it.Cov["action_reached"]}, 3)
		}
	}
	f.run(cases)
	requireCov(c, "accepted_with_actions", "ref_action_discarded_seqfail", "ref_action_discarded_lookahead", "ref_action_reached_in_lookahead", "ref_capture_discarded_seqfail")
	c.run.Rule = "cases: as C03 (shared prefixes with captures and actions, repetitions, lookahead, nested captures, action ids out of order across rules, non-ASCII text); every action is a probe p.act(id, text, begin, end); Execute() is called once after each successful parse (before — and in one configuration after — the syntax tree has been built and printed), under default options, -inline, -switch and with memoisation off. " +
		"Oracle: the recorded trace equals the reference's: exactly the derivation's actions, once, left to right, with text/begin/end of the most recently completed capture preceding each in the derivation. " +
		"distinct_nontrivial = distinct accepted (grammar, entry, input) with >=1 action on the derivation and >=1 action reached in a branch that was abandoned or inside a lookahead."
	c.run.Assume("well-formed grammars; -inline parsers are entered through the first rule only")
}

func c05(c *ctx) {
	n := tierN(c, 200, 3000)
	r := rand.New(rand.NewSource(c.env.Seed))
	var cases []*gcase
	for i := 0; i < n; i++ {
		cs := &gcase{id: i}
		if i%3 != 2 {
			g, ins := gram.Nesting(r)
			cs.g = g
			for _, in := range ins {
				cs.entries = append(cs.entries, entry{-1, in})
			}
			for _, in := range gram.Inputs(r, g, "R0", 4, []rune("ab,xy_k0é😀")) {
				cs.entries = append(cs.entries, entry{-1, in})
			}
			for _, in := range gram.Inputs(r, g, "E", 3, []rune("abxy_k0é😀")) {
				cs.entries = append(cs.entries, entry{1, in})
			}
		} else {
			cs.g = gram.Backtracky(r, nil)
			cs.entries = entriesFor(r, cs.g, 14, true, 3, []rune("abc\né😀"))
		}
		cases = append(cases, cs)
	}
	cfgs := []config{{name: "plain", v: vPlain, memo: true}, {name: "nomemo", v: vPlain}}
	f := &family{c: c, tag: "c05", configs: cfgs, stdout: true, noexec: true, pairs: []string{"plain"}, history: []string{"plain"}, reinit: true}
	f.judge = func(cs *gcase, e entry, it *ref.Interp, refOK bool, refEnd int, res map[string]*corpus.Res) {
		id := report.Hash(cs.text, fmt.Sprint(e.rule), e.input)
		wantShape, wantText := it.TreeShape(), it.TreeString()
		for _, cf := range cfgs {
			r := res[cf.name]
			if r == nil {
				continue
			}
			c.run.Eval(1)
			w := func() map[string]any {
				return witness(cs, e, map[string]any{"config": cf.name, "ref_verdict": refOK, "ref_tree": wantShape, "ref_print": wantText, "got_verdict": r.OK, "got_tree": r.Shape, "got_sprint": r.Sprint, "got_write": r.Write, "got_stdout": r.Stdout, "got_pretty_stdout": r.PStdout, "panic": r.Panic, "fatal": r.Fatal})
			}
			if m := crashed(r); m != nil {
				c.run.Violate(m.kind+":"+cf.name+":"+id, m.detail, w())
				continue
			}
			if r.OK != refOK {
				c.run.Violate("verdict:"+cf.name+":"+id, fmt.Sprintf("verdict %v, reference %v (a C01 matter, observed here)", r.OK, refOK), w())
				continue
			}
			if !r.OK {
				continue
			}
			pretty := ""
			for _, l := range splitLines(wantText) {
				ind := 0
				for ind < len(l) && l[ind] == ' ' {
					ind++
				}
				rest := l[ind:]
				sp := indexByte(rest, ' ')
				pretty += l[:ind] + "\x1B[36m" + rest[:sp] + "\x1B[m" + rest[sp:] + "\n"
			}
			switch {
			case r.Shape != wantShape:
				c.run.Violate("ast:"+cf.name+":"+id, fmt.Sprintf("AST() is not the derivation tree of the non-empty tokens (input %q)", e.input), w())
			case r.Sprint != wantText:
				c.run.Violate("sprint:"+cf.name+":"+id, "SprintSyntaxTree() does not print the derivation tree with the exact substrings", w())
			case r.Write != wantText:
				c.run.Violate("write:"+cf.name+":"+id, "WriteSyntaxTree() output differs from the derivation tree", w())
			case r.Stdout != wantText:
				c.run.Violate("print:"+cf.name+":"+id, "PrintSyntaxTree() output differs from the derivation tree", w())
			case r.PStdout != pretty:
				c.run.Violate("pretty:"+cf.name+":"+id, "PrintSyntaxTree() with Pretty set differs from the derivation tree (coloured variant)", w())
			}
		}
		if refOK {
			depth, eq, skipped := it.TreeStats()
			c.run.Count("trees", 1)
			if depth > c.run.Counters["max_tree_depth"] {
				c.run.Counters["max_tree_depth"] = depth
			}
			c.run.Count("equal_span_parent_child_pairs", eq)
			c.run.Count("empty_tokens_skipped", skipped)
			if depth >= 3 && (eq > 0 || skipped > 0) {
				c.run.Nontrivial(id)
			}
			if depth >= 4 {
				c.run.Sample(map[string]any{"grammar": cs.text, "entry": e.ruleName(cs.g), "input": e.input, "expected_tree": wantShape}, 2)
			}
		}
	}
	f.run(cases)
	requireCov(c, "trees", "equal_span_parent_child_pairs", "empty_tokens_skipped")
	if c.run.Counters["max_tree_depth"] < 30 {
		c.run.Incon("no tree deeper than 30 was observed")
	}
	c.run.Rule = "cases: nesting grammars (unit-rule chains so that parent and child span the same text, zero-width tokens between siblings from actions and nullable rules, many siblings from repetitions, recursion depth up to 60 rule levels x chain length, multi-byte atoms) and shared-prefix grammars; the probe walks AST() through up/next and captures SprintSyntaxTree, WriteSyntaxTree, PrintSyntaxTree and its Pretty variant (stdout redirected through a pipe). " +
		"Oracle: node-for-node equality with the reference derivation tree with empty tokens removed, and byte equality of the printed text (indent = depth, rule name, strconv.Quote of the rune substring). " +
		"distinct_nontrivial = distinct accepted (grammar, entry, input) whose tree has depth >=3 and at least one equal-span parent/child pair or one skipped empty token."
	c.run.Assume("well-formed grammars; nesting bounded at 60 levels")
}

func splitLines(s string) []string {
	var out []string
	for len(s) > 0 {
		i := indexByte(s, '\n')
		if i < 0 {
			out = append(out, s)
			break
		}
		out = append(out, s[:i])
		s = s[i+1:]
	}
	return out
}

func indexByte(s string, b byte) int {
	for i := 0; i < len(s); i++ {
		if s[i] == b {
			return i
		}
	}
	return -1
}

// manyRuleCase: a grammar with more than 256 rule ids in which every rule is tried at the same offsets (a long ordered
// choice of keyword rules): rule numbers above 255 take part in memoisation.
func manyRuleCase(r *rand.Rand, id int) *gcase {
	n := 270 + r.Intn(60)
	g := &gram.Grammar{}
	var alts []*gram.Expr
	for i := 1; i <= n; i++ {
		alts = append(alts, gram.Ref(fmt.Sprintf("K%d", i)))
	}
	// W <- K1 / K2 / ... ; R0 <- (W ';' / W ',' / W)+ !.   (W is re-entered at the same offset after backtracking)
	g.Rules = append(g.Rules, &gram.Rule{Name: "R0", E: gram.Seq(gram.Un(gram.KPlus, gram.Alt(gram.Seq(gram.Ref("W"), gram.Lit(";")), gram.Seq(gram.Ref("W"), gram.Lit(",")), gram.Ref("W"))), gram.Un(gram.KNot, gram.Dot()))})
	g.Rules = append(g.Rules, &gram.Rule{Name: "W", E: gram.Alt(alts...)})
	word := func(i int) string { return fmt.Sprintf("%c%c%d", 'a'+rune(i%3), 'a'+rune(i%5), i) }
	for i := 1; i <= n; i++ {
		g.Rules = append(g.Rules, &gram.Rule{Name: fmt.Sprintf("K%d", i), E: gram.Lit(word(i))})
	}
	g.Number()
	cs := &gcase{id: id, g: g}
	for k := 0; k < 14; k++ {
		in := ""
		for j := 1 + r.Intn(5); j > 0; j-- {
			in += word(1+r.Intn(n)) + []string{";", ",", "", ";"}[r.Intn(4)]
		}
		if k%4 == 3 {
			in += "zz"
		}
		cs.entries = append(cs.entries, entry{-1, in})
	}
	return cs
}

// spanBoundaryCase: one rule application spanning exactly 2^8 / 2^16 runes (and one less, one more), re-entered at
// the same offset after backtracking: Run is first applied inside 'Run x End', replayed from the memo table for
// 'Run y End' and again for the bare Run. Whatever a memo entry stores about a match must not be squeezed into
// a width the span does not fit.
func spanBoundaryCase(id int, withProbes bool) *gcase {
	g := &gram.Grammar{Rules: []*gram.Rule{
		{Name: "R0", E: gram.Alt(gram.Seq(gram.Ref("Run"), gram.Lit("x"), gram.Ref("End")), gram.Seq(gram.Ref("Run"), gram.Lit("y"), gram.Ref("End")), gram.Ref("Run"))},
		{Name: "Run", E: gram.Un(gram.KPlus, gram.Rng('a', 'w'))},
		{Name: "End", E: gram.Un(gram.KNot, gram.Dot())},
	}}
	g.Number()
	if withProbes {
		gram.Finish(g, &gram.Profile{EnterProbes: true})
	}
	cs := &gcase{id: id, g: g}
	for _, n := range []int{254, 255, 256, 257, 65534, 65535, 65536, 65537} {
		run := strings.Repeat("abcdefgh", n/8+1)[:n]
		for _, tail := range []string{"y", "x", "z", ""} {
			cs.entries = append(cs.entries, entry{-1, run + tail})
		}
	}
	return cs
}

func c06(c *ctx) {
	cases := backtrackCases(c, tierN(c, 240, 5000), 16, true, false)
	{
		r := rand.New(rand.NewSource(c.env.Seed + 77))
		for k := 0; k < tierN(c, 2, 8); k++ {
			cases = append(cases, manyRuleCase(r, len(cases)))
		}
		cases = append(cases, spanBoundaryCase(len(cases), false), spanBoundaryCase(len(cases)+1, true))
		c.run.Count("span_boundary_grammars", 2)
	}
	cfgs := []config{{name: "memo", v: vPlain, memo: true}, {name: "nomemo", v: vPlain}}
	f := &family{c: c, tag: "c06", configs: cfgs, noexec: true, history: []string{"memo"}, retries: []string{"memo", "nomemo"}, retryEqual: [2]string{"memo", "nomemo"}, refLimit: 3000000}
	f.judge = func(cs *gcase, e entry, it *ref.Interp, refOK bool, refEnd int, res map[string]*corpus.Res) {
		covAccumulate(c, it)
		id := report.Hash(cs.text, fmt.Sprint(e.rule), e.input)
		m, nm := res["memo"], res["nomemo"]
		if m == nil || nm == nil {
			return
		}
		c.run.Eval(2)
		w := func(extra map[string]any) map[string]any {
			x := map[string]any{"ref_verdict": refOK, "ref_tokens": refTokStrings(it.Toks), "ref_max": refMax(it),
				"memo_verdict": m.OK, "memo_tokens": tokStrings(m.Toks), "memo_max": fmt.Sprint(m.Max), "memo_panic": m.Panic + m.Fatal,
				"nomemo_verdict": nm.OK, "nomemo_tokens": tokStrings(nm.Toks), "nomemo_max": fmt.Sprint(nm.Max), "nomemo_panic": nm.Panic + nm.Fatal}
			for k, v := range extra {
				x[k] = v
			}
			return witness(cs, e, x)
		}
		for name, r := range map[string]*corpus.Res{"memo": m, "nomemo": nm} {
			if mm := crashed(r); mm != nil {
				c.run.Violate(mm.kind+":"+name+":"+id, name+": "+mm.detail, w(nil))
				return
			}
		}
		maxS := func(r *corpus.Res) string {
			if r.Max == nil {
				return ""
			}
			return r.Max.String()
		}
		switch {
		case m.OK != nm.OK:
			c.run.Violate("verdict:"+id, fmt.Sprintf("memoisation changes the verdict: memo %v, DisableMemoize %v (reference %v)", m.OK, nm.OK, refOK), w(nil))
		case m.OK && tokStrings(m.Toks) != tokStrings(nm.Toks):
			c.run.Violate("tokens:"+id, "memoisation changes the recorded tokens", w(nil))
		case !m.OK && maxS(m) != maxS(nm):
			c.run.Violate("maxtoken:"+id, "memoisation changes the error token: memo "+maxS(m)+", DisableMemoize "+maxS(nm), w(nil))
		case m.OK != refOK:
			c.run.Violate("refverdict:"+id, fmt.Sprintf("both agree on %v but PEG semantics say %v", m.OK, refOK), w(nil))
		case m.OK && tokStrings(m.Toks) != refTokStrings(it.Toks):
			c.run.Violate("reftokens:"+id, "both agree on tokens that are not the derivation's", w(nil))
		case !m.OK && maxS(m) != refMax(it):
			c.run.Violate("refmax:"+id, "both agree on an error token that is not the furthest non-empty token: "+maxS(m)+" vs "+refMax(it), w(nil))
		}
		// memo hits are observed, not assumed: rule-entry observer log
		refLog := refEnterLog(it.Events)
		if len(refLog) > 0 {
			nmLog, mLog := enterLog(nm.Events), enterLog(m.Events)
			want := firstOccurrences(refLog)
			if fmt.Sprint(nmLog) != fmt.Sprint(refLog) {
				c.run.Violate("enterlog-nomemo:"+id, "without memoisation the rule bodies entered (rule@offset, in time order) differ from the reference evaluation", w(map[string]any{"ref_entries": refLog, "nomemo_entries": nmLog}))
			} else if fmt.Sprint(mLog) != fmt.Sprint(want) {
				c.run.Violate("enterlog-memo:"+id, "with memoisation a rule body must be evaluated exactly once per (rule, offset), in first-visit order", w(map[string]any{"expected_entries": want, "memo_entries": mLog}))
			}
			hits := len(refLog) - len(want)
			if hits > 0 {
				c.run.Count("memo_hits_observed", hits)
				c.run.Count("cases_with_observed_memo_hits", 1)
				if refOK {
					c.run.Count("memo_hits_in_accepting_parse", 1)
				} else {
					c.run.Count("memo_hits_in_rejecting_parse", 1)
				}
				c.run.Nontrivial(id)
				c.run.Sample(map[string]any{"grammar": cs.text, "entry": e.ruleName(cs.g), "input": e.input, "rule_entries_without_memo": refLog, "rule_entries_with_memo": mLog}, 3)
			}
		} else if it.Cov["rule_revisited_same_offset"] > 0 {
			c.run.Count("cases_with_potential_memo_hits_no_probes", 1)
			c.run.Nontrivial(id)
		}
	}
	f.run(cases)
	requireCov(c, "retry_attempts_compared_across_configs", "memo_hits_observed", "memo_hits_in_accepting_parse", "memo_hits_in_rejecting_parse", "cases_with_potential_memo_hits_no_probes")
	c.run.Rule = "cases: revisit-heavy grammars (alternatives A B / A C / A, lookahead followed by consumption &A A, !A ... / A, rules re-entered at the same offset from different callers; plus grammars of 270-330 keyword rules tried at the same offsets, so that rule numbers above 255 are memoised; plus a rule application spanning exactly 254..257 and 65534..65537 runes that is replayed from the memo table twice); the same compiled parser is run with Init() and Init(DisableMemoize()). Half of the grammars start every rule body with an observer predicate that logs (rule, offset) and always succeeds; the other half has no predicate at all. " +
		"Oracle: equal verdict, tokens and (on failure) error token, both equal to the reference; observer log without memo = the reference's rule entries, with memo = their first occurrences (each (rule, offset) evaluated exactly once). " +
		"Entry rules tried in turn on one instance without Reset (the memo table and the furthest token live on): every attempt — error token and message of the failed ones, tokens of the successful one — must be the same with and without memoisation. " +
		"distinct_nontrivial = distinct (grammar, entry, input) on which at least one memo hit was observed through the log (or, without probes, the reference re-entered a rule at the same offset)."
	c.run.Assume("predicates used are observers (always true) or pure functions of the offset")
}
