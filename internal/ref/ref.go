// Package ref: reference interpreter for PEG semantics over the gram AST. It is the executable specification
// the monitors compare the generated parsers with. It never looks at peg's own tree, first sets or labels.
//
// Semantics (Ford 2004, as restated in the property texts): sequence; ordered choice (first alternative that
// matches wins, no backtracking into a committed alternative); greedy possessive ? * +; non-consuming & and !;
// literals (case-insensitive ones fold ASCII letters), classes, negated classes, dot = any one rune.
//
// Besides the verdict and the consumed prefix it records, in evaluation order, what a token-recording packrat
// parser must record: the post-order token list of the *successful* derivation (truncated whenever a branch is
// abandoned), the furthest non-empty token completed at any time, the time-ordered event log of every
// action / state change / observer predicate *reached*, and coverage counters.
package ref

import (
	"strconv"
	"strings"

	"verif/internal/gram"
)

type Tok struct {
	Rule       string
	Begin, End int
}

func (t Tok) String() string {
	return t.Rule + "[" + strconv.Itoa(t.Begin) + "," + strconv.Itoa(t.End) + "]"
}

type Node struct {
	Tok
	Kids  []*Node
	first int // index of the first token of the subtree
}

// Event is something that happened at evaluation time (also inside branches that later fail).
type Event struct {
	Kind string // "act" (action reached), "note" (state change), "enter" (rule-entry observer), "cap" (capture completed)
	ID   int
	Pos  int
	Text string // for "act": the most recently completed capture *in time* (what an inline action sees)
}

// Act is one entry of the Execute() trace of an AST-mode parser.
type Act struct {
	ID         int
	Text       string
	Begin, End int
}

type Interp struct {
	G     *gram.Grammar
	In    []rune
	Toks  []Tok
	Roots []*Node
	Max   Tok // furthest non-empty token, in the sense of the generated parser's add(); Rule=="" if none
	// Completed: every token completed at any time during the attempt (also in abandoned branches).
	Completed map[Tok]bool
	Events    []Event
	Cov       map[string]int
	Visits    map[[2]int]int // (rule index, pos) -> number of evaluations of the rule body
	Steps     int
	Limit     int
	Over      bool
	Depth     int
	MaxDepth  int
	text      string // inline-mode text variable
	inLook    int
}

func New(g *gram.Grammar, in string) *Interp {
	return &Interp{G: g, In: []rune(in), Limit: 2000000, Completed: map[Tok]bool{}, Cov: map[string]int{}, Visits: map[[2]int]int{}}
}

func (it *Interp) trunc(n int, why string) {
	if n < len(it.Toks) {
		nonEmpty := false
		for _, t := range it.Toks[n:] {
			if t.Begin != t.End {
				nonEmpty = true
			}
			if strings.HasPrefix(t.Rule, "Action") {
				it.Cov["action_discarded_"+why]++
			}
			if t.Rule == "PegText" {
				it.Cov["capture_discarded_"+why]++
			}
		}
		it.Cov["tokens_discarded_"+why]++
		if nonEmpty {
			it.Cov["nonempty_tokens_discarded_"+why]++
			it.Cov["nonempty_tokens_discarded"]++
		}
		it.Cov["tokens_discarded"]++
	}
	it.Toks = it.Toks[:n]
	for len(it.Roots) > 0 && it.Roots[len(it.Roots)-1].first >= n {
		it.Roots = it.Roots[:len(it.Roots)-1]
	}
}

func (it *Interp) addAt(rule string, begin, pos, n0 int) {
	nd := &Node{Tok: Tok{rule, begin, pos}, first: n0}
	i := len(it.Roots)
	for i > 0 && it.Roots[i-1].first >= n0 {
		i--
	}
	nd.Kids = append(nd.Kids, it.Roots[i:]...)
	it.Roots = append(it.Roots[:i], nd)
	t := Tok{rule, begin, pos}
	it.Toks = append(it.Toks, t)
	it.Completed[t] = true
	if begin != pos && pos > it.Max.End {
		it.Max = t
		it.Cov["max_token_updates"]++
	}
}

// Parse evaluates rule name at offset 0.
func (it *Interp) Parse(name string) (bool, int) {
	ok, end := it.rule(it.G.Index(name), 0)
	if ok {
		it.Cov["accept"]++
	} else {
		it.Cov["reject"]++
	}
	return ok, end
}

func (it *Interp) rule(ri int, pos int) (bool, int) {
	r := it.G.Rules[ri]
	it.Visits[[2]int{ri, pos}]++
	if it.Visits[[2]int{ri, pos}] == 2 {
		it.Cov["rule_revisited_same_offset"]++
	}
	it.Depth++
	if it.Depth > it.MaxDepth {
		it.MaxDepth = it.Depth
	}
	n := len(it.Toks)
	ok, end := it.eval(r.E, pos)
	it.Depth--
	if !ok {
		it.trunc(n, "rulefail")
		return false, pos
	}
	it.addAt(r.Name, pos, end, n)
	return true, end
}

func (it *Interp) out(kind string, ok bool) {
	if ok {
		it.Cov[kind+":ok"]++
	} else {
		it.Cov[kind+":fail"]++
	}
}

func (it *Interp) eval(e *gram.Expr, pos int) (ok bool, end int) {
	it.Steps++
	if it.Steps > it.Limit {
		it.Over = true
		return false, pos
	}
	switch e.K {
	case gram.KSeq:
		n := len(it.Toks)
		p := pos
		for i, k := range e.Kids {
			ok, np := it.eval(k, p)
			if !ok {
				if p > pos {
					it.Cov["seq_failed_after_consuming"]++
				}
				if i > 0 && len(it.Toks) > n {
					it.Cov["seq_failed_after_tokens"]++
				}
				it.trunc(n, "seqfail")
				it.out("seq", false)
				return false, pos
			}
			p = np
		}
		it.out("seq", true)
		return true, p
	case gram.KAlt:
		n := len(it.Toks)
		for i, k := range e.Kids {
			ok, np := it.eval(k, pos)
			if ok {
				if i > 0 {
					it.Cov["alt_nonfirst_taken"]++
				}
				it.out("alt", true)
				return true, np
			}
			it.trunc(n, "altfail")
		}
		it.Cov["alt_all_failed"]++
		it.out("alt", false)
		return false, pos
	case gram.KQuery:
		n := len(it.Toks)
		ok, np := it.eval(e.Kids[0], pos)
		if ok {
			it.Cov["query:taken"]++
			return true, np
		}
		it.trunc(n, "queryfail")
		it.Cov["query:skipped"]++
		return true, pos
	case gram.KStar, gram.KPlus:
		p := pos
		iters := 0
		if e.K == gram.KPlus {
			ok, np := it.eval(e.Kids[0], p)
			if !ok {
				it.out("plus", false)
				return false, pos
			}
			p = np
			iters++
		}
		for {
			n := len(it.Toks)
			ok, np := it.eval(e.Kids[0], p)
			if !ok || it.Over {
				it.trunc(n, "iterfail")
				break
			}
			if np == p { // not well-formed: would loop forever
				it.Over = true
				break
			}
			p = np
			iters++
		}
		if iters > 1 {
			it.Cov["rep:many"]++
		} else if iters == 1 {
			it.Cov["rep:one"]++
		} else {
			it.Cov["rep:zero"]++
		}
		return true, p
	case gram.KAnd, gram.KNot:
		n := len(it.Toks)
		it.inLook++
		ok, np := it.eval(e.Kids[0], pos)
		it.inLook--
		if ok && np > pos {
			it.Cov["lookahead_consumed_then_restored"]++
		}
		if len(it.Toks) > n {
			it.Cov["lookahead_discarded_tokens"]++
		}
		it.trunc(n, "lookahead")
		it.Cov["lookahead_evals"]++
		if e.K == gram.KAnd {
			it.out("and", ok)
			return ok, pos
		}
		it.out("not", !ok)
		return !ok, pos
	case gram.KCapture:
		n := len(it.Toks)
		ok, np := it.eval(e.Kids[0], pos)
		if !ok {
			it.out("capture", false)
			return false, pos
		}
		it.addAt("PegText", pos, np, n)
		it.text = string(it.In[pos:np])
		it.Events = append(it.Events, Event{Kind: "cap", Pos: np, Text: it.text})
		if it.inLook > 0 {
			it.Cov["capture_completed_in_lookahead"]++
		}
		it.out("capture", true)
		return true, np
	case gram.KAction:
		it.addAt("Action"+strconv.Itoa(e.ID), pos, pos, len(it.Toks))
		it.Events = append(it.Events, Event{Kind: "act", ID: e.ID, Pos: pos, Text: it.text})
		if it.inLook > 0 {
			it.Cov["action_reached_in_lookahead"]++
		}
		it.Cov["action_reached"]++
		return true, pos
	case gram.KLit:
		p := pos
		for _, c := range e.Text {
			if p >= len(it.In) {
				it.out("lit", false)
				if p > pos {
					it.Cov["lit_partial_match"]++
				}
				return false, pos
			}
			if it.In[p] != c && !(e.CI && gram.FoldEq(c, it.In[p])) {
				it.out("lit", false)
				if p > pos {
					it.Cov["lit_partial_match"]++
				}
				return false, pos
			}
			if e.CI && it.In[p] != c {
				it.Cov["lit_matched_other_case"]++
			}
			p++
		}
		it.out("lit", true)
		return true, p
	case gram.KClass:
		if pos >= len(it.In) {
			it.out("class", false)
			return false, pos
		}
		c := it.In[pos]
		m := false
		for _, item := range e.Items {
			if gram.MatchItem(item, e.CI, c) {
				m = true
				break
			}
		}
		if e.Neg {
			m = !m
			it.out("negclass", m)
		} else {
			it.out("class", m)
		}
		if m {
			return true, pos + 1
		}
		return false, pos
	case gram.KDot:
		if pos < len(it.In) {
			it.out("dot", true)
			return true, pos + 1
		}
		it.out("dot", false)
		return false, pos
	case gram.KRef:
		ri := it.G.Index(e.Name)
		ok, np := it.rule(ri, pos)
		it.out("ref", ok)
		return ok, np
	case gram.KNil:
		it.Cov["nil"]++
		return true, pos
	case gram.KPred:
		switch e.Pred {
		case gram.PTrue:
			it.out("pred", true)
			return true, pos
		case gram.PFalse:
			it.out("pred", false)
			return false, pos
		case gram.PFn:
			v := gram.PredFn(e.Arg, pos)
			it.out("predfn", v)
			return v, pos
		case gram.PEnter:
			it.Events = append(it.Events, Event{Kind: "enter", ID: e.Arg, Pos: pos})
			return true, pos
		case gram.PChk:
			return true, pos
		}
	case gram.KState:
		it.Events = append(it.Events, Event{Kind: "note", ID: e.ID, Pos: pos})
		it.Cov["state_change"]++
		return true, pos
	}
	panic("ref: bad kind")
}

// TreeString renders the derivation tree of non-empty tokens the way the generated printers must print it.
func (it *Interp) TreeString() string {
	var sb strings.Builder
	var pr func(n *Node, depth int)
	pr = func(n *Node, depth int) {
		if n.Begin == n.End {
			return
		}
		sb.WriteString(strings.Repeat(" ", depth))
		sb.WriteString(n.Rule + " " + strconv.Quote(string(it.In[n.Begin:n.End])) + "\n")
		for _, k := range n.Kids {
			pr(k, depth+1)
		}
	}
	for _, r := range it.Roots {
		pr(r, 0)
	}
	return sb.String()
}

// TreeShape renders the same tree as a nested term: R[b,e](kid kid ...), non-empty nodes only.
func (it *Interp) TreeShape() string {
	var sb strings.Builder
	var pr func(n *Node)
	pr = func(n *Node) {
		if n.Begin == n.End {
			return
		}
		sb.WriteString(n.Tok.String())
		sb.WriteString("(")
		for _, k := range n.Kids {
			pr(k)
		}
		sb.WriteString(")")
	}
	for _, r := range it.Roots {
		pr(r)
	}
	return sb.String()
}

// TreeStats: depth of the non-empty tree, number of parent/child pairs with equal span, number of empty tokens skipped.
func (it *Interp) TreeStats() (depth, equalSpan, skipped int) {
	var w func(n *Node, d int)
	w = func(n *Node, d int) {
		if n.Begin == n.End {
			skipped++
			for _, k := range n.Kids {
				w(k, d)
			}
			return
		}
		if d > depth {
			depth = d
		}
		for _, k := range n.Kids {
			if k.Begin == n.Begin && k.End == n.End {
				equalSpan++
			}
			w(k, d+1)
		}
	}
	for _, r := range it.Roots {
		w(r, 1)
	}
	return
}

// ActionTrace: what Execute() must do after a successful parse: the derivation's actions in order, each with the
// most recently completed capture preceding it in the token (post-order) sequence.
func (it *Interp) ActionTrace() []Act {
	out := []Act{}
	text, b, e := "", 0, 0
	for _, t := range it.Toks {
		if t.Rule == "PegText" {
			b, e = t.Begin, t.End
			text = string(it.In[b:e])
		} else if strings.HasPrefix(t.Rule, "Action") {
			id, _ := strconv.Atoi(t.Rule[6:])
			out = append(out, Act{id, text, b, e})
		}
	}
	return out
}

// LineCol: 1-based line and column of rune offset k (independent restatement used by the C11 oracle).
func LineCol(in []rune, k int) (line, col int) {
	line, col = 1, 1
	for i := 0; i < k && i < len(in); i++ {
		if in[i] == '\n' {
			line++
			col = 1
		} else {
			col++
		}
	}
	if k > len(in) {
		col += k - len(in)
	}
	return
}
