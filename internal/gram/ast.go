// Package gram: grammar AST for the .peg language, independent of pointlander/peg's own tree package.
// It carries only what the documentation of the language says a construct means; the reference interpreter
// (package ref) evaluates it directly.
package gram

import "fmt"

type Kind int

const (
	KSeq Kind = iota
	KAlt
	KQuery
	KStar
	KPlus
	KAnd
	KNot
	KCapture // < e >
	KAction  // { go code }   — ID = textual order
	KLit     // 'abc' (CI=false) or "abc" (CI=true: ASCII letters fold)
	KClass   // [..] [^..] [[..]] : Items, Neg, CI
	KDot
	KRef
	KNil   // the empty expression: "()" or a trailing "/"
	KPred  // &{ go expr }  : Pred tells what the expression evaluates to
	KState // !{ go stmt }  : state change, always succeeds, consumes nothing
)

type PredKind int

const (
	PTrue  PredKind = iota // &{ true }
	PFalse                 // &{ false }
	PFn                    // &{ p.P(K, int(position)) }  deterministic function of (K, position), see PredFn
	PEnter                 // &{ p.enter(K, int(position), int(tokenIndex)) }  observer, always true (K = rule index)
	PChk                   // &{ p.chk(int(position), len(buffer)) } observer: bounds assertion, always true
)

// Item is one element of a character class: a single rune (Lo==Hi) or a range Lo-Hi.
type Item struct{ Lo, Hi rune }

type Expr struct {
	K     Kind
	Kids  []*Expr
	Text  []rune // KLit
	CI    bool   // KLit, KClass
	Items []Item // KClass
	Neg   bool   // KClass
	Name  string // KRef
	ID    int    // KAction: textual order; KState: note id
	Pred  PredKind
	Arg   int // KPred PFn/PEnter argument
}

type Rule struct {
	Name string
	E    *Expr
}

type Grammar struct {
	Rules []*Rule
	idx   map[string]int
}

func (g *Grammar) Index(name string) int {
	if g.idx == nil || len(g.idx) != len(g.Rules) {
		g.idx = map[string]int{}
		for i, r := range g.Rules {
			if _, dup := g.idx[r.Name]; !dup {
				g.idx[r.Name] = i
			}
		}
	}
	if i, ok := g.idx[name]; ok {
		return i
	}
	return -1
}

func (g *Grammar) Rule(name string) *Rule {
	if i := g.Index(name); i >= 0 {
		return g.Rules[i]
	}
	return nil
}

// Walk visits every expression of the grammar in textual order.
func (g *Grammar) Walk(f func(r *Rule, e *Expr)) {
	var w func(r *Rule, e *Expr)
	w = func(r *Rule, e *Expr) {
		f(r, e)
		for _, k := range e.Kids {
			w(r, k)
		}
	}
	for _, r := range g.Rules {
		w(r, r.E)
	}
}

// Number assigns action ids in textual order (that is how peg numbers ActionN) and state ids likewise.
// It returns the number of actions.
func (g *Grammar) Number() int {
	na, ns := 0, 0
	g.Walk(func(_ *Rule, e *Expr) {
		switch e.K {
		case KAction:
			e.ID = na
			na++
		case KState:
			e.ID = ns
			ns++
		}
	})
	return na
}

func (g *Grammar) Count(k Kind) int {
	n := 0
	g.Walk(func(_ *Rule, e *Expr) {
		if e.K == k {
			n++
		}
	})
	return n
}

func (g *Grammar) Clone() *Grammar {
	var c func(e *Expr) *Expr
	c = func(e *Expr) *Expr {
		n := *e
		n.Kids = nil
		for _, k := range e.Kids {
			n.Kids = append(n.Kids, c(k))
		}
		n.Text = append([]rune(nil), e.Text...)
		n.Items = append([]Item(nil), e.Items...)
		return &n
	}
	out := &Grammar{}
	for _, r := range g.Rules {
		out.Rules = append(out.Rules, &Rule{Name: r.Name, E: c(r.E)})
	}
	return out
}

// PredFn is the deterministic "semantic predicate" both the probes (in Go, inside the generated parser) and the
// reference interpreter evaluate for PFn.
func PredFn(k, pos int) bool { return (pos*7+k*3)%5 != 0 }

// FoldEq reports whether input rune c matches pattern rune p case-insensitively in the sense of the .peg
// documentation: ASCII letters fold, everything else matches itself.
func FoldEq(p, c rune) bool {
	if p == c {
		return true
	}
	if p >= 'a' && p <= 'z' {
		return c == p-32
	}
	if p >= 'A' && p <= 'Z' {
		return c == p+32
	}
	return false
}

func isLetter(c rune) bool { return (c >= 'a' && c <= 'z') || (c >= 'A' && c <= 'Z') }

// MatchItem: does rune c match class item it (case-insensitively if ci)?
// For a case-insensitive range both endpoints are letters of one case (generator invariant) and the range
// denotes the letters between them in either case; other ranges match literally.
func MatchItem(it Item, ci bool, c rune) bool {
	if c >= it.Lo && c <= it.Hi {
		return true
	}
	if !ci {
		return false
	}
	if it.Lo == it.Hi {
		return FoldEq(it.Lo, c)
	}
	if isLetter(it.Lo) && isLetter(it.Hi) {
		lo, hi := it.Lo|0x20, it.Hi|0x20 // lower-case
		if c >= lo && c <= hi {
			return true
		}
		lo, hi = it.Lo&^0x20, it.Hi&^0x20
		return c >= lo && c <= hi
	}
	return false
}

func (e *Expr) String() string { return Print(e, nil) }

func Lit(s string) *Expr           { return &Expr{K: KLit, Text: []rune(s)} }
func LitCI(s string) *Expr         { return &Expr{K: KLit, Text: []rune(s), CI: true} }
func Ref(n string) *Expr           { return &Expr{K: KRef, Name: n} }
func Seq(k ...*Expr) *Expr         { return &Expr{K: KSeq, Kids: k} }
func Alt(k ...*Expr) *Expr         { return &Expr{K: KAlt, Kids: k} }
func Un(k Kind, e *Expr) *Expr     { return &Expr{K: k, Kids: []*Expr{e}} }
func Rng(lo, hi rune) *Expr        { return &Expr{K: KClass, Items: []Item{{lo, hi}}} }
func Cls(items ...Item) *Expr      { return &Expr{K: KClass, Items: items} }
func Dot() *Expr                   { return &Expr{K: KDot} }
func Nil() *Expr                   { return &Expr{K: KNil} }
func Act() *Expr                   { return &Expr{K: KAction} }
func Pred(p PredKind, a int) *Expr { return &Expr{K: KPred, Pred: p, Arg: a} }
func State() *Expr                 { return &Expr{K: KState} }

func (k Kind) String() string {
	return [...]string{"seq", "alt", "query", "star", "plus", "and", "not", "capture", "action", "lit", "class", "dot", "ref", "nil", "pred", "state"}[k]
}

var _ = fmt.Sprint
