package gram

import (
	"fmt"
	"math/rand"
	"strings"
)

// PrintOpts controls how a grammar is written as .peg text. With V == nil the canonical spelling is used;
// otherwise every construct is spelled with a randomly chosen documented variant (arrow, comments, escapes,
// redundant parentheses, ...). The *meaning* must not depend on the variant: that is property C10.
type PrintOpts struct {
	Package string
	Type    string // parser type name (default P)
	State   string // struct fields
	Imports []string
	Header  string // raw text placed before "package" (comments / blank lines)
	// ActionCode returns the Go text of action id (without braces).
	ActionCode func(id int) string
	// StateCode returns the Go text of state change id.
	StateCode func(id int) string
	// PredText, if set, returns the Go text of a predicate (default: PredCode).
	PredText func(e *Expr) string
	V        *rand.Rand
}

type printer struct {
	o  *PrintOpts
	sb strings.Builder
}

func (p *printer) v(n int) int {
	if p.o.V == nil {
		return 0
	}
	return p.o.V.Intn(n)
}

// sp writes optional spacing (possibly with comments) where the .peg grammar has "Spacing".
func (p *printer) sp(def string) {
	if p.o.V == nil {
		p.sb.WriteString(def)
		return
	}
	switch p.o.V.Intn(12) {
	case 0:
		p.sb.WriteString(def + " # c" + fmt.Sprint(p.o.V.Intn(9)) + "\n ")
	case 1:
		p.sb.WriteString(def + " // note <- 'x' {\n ")
	case 2:
		p.sb.WriteString(def + "\t")
	case 3:
		p.sb.WriteString(def + "\n  ")
	case 4:
		p.sb.WriteString(def + "\r\n ")
	case 5:
		if def == "" {
			p.sb.WriteString(" ")
		} else {
			p.sb.WriteString(def)
		}
	default:
		p.sb.WriteString(def)
	}
}

func isHex(c rune) bool {
	return (c >= '0' && c <= '9') || (c >= 'a' && c <= 'f') || (c >= 'A' && c <= 'F')
}
func isOct(c rune) bool { return c >= '0' && c <= '7' }

var escLetters = map[rune]byte{'\a': 'a', '\b': 'b', 0x1b: 'e', '\f': 'f', '\n': 'n', '\r': 'r', '\t': 't', '\v': 'v'}

// escRune writes rune c as it may appear inside a literal or class. ctx: '\” single-quoted, '"' double-quoted,
// ']' class. next is the rune that follows in the same literal/class (0 if none): numeric escapes are greedy.
// first: c is the first thing after '[' (a raw '^' there would negate).
func (p *printer) escRune(c rune, ctx byte, next rune, first bool, ci bool) string {
	if ci && isLetter(c) {
		return string(c) // a numeric escape would make the letter case-sensitive
	}
	hex := func() string {
		if isHex(next) {
			return "" // a following hex digit would be swallowed
		}
		if p.v(2) == 0 {
			return fmt.Sprintf(`\0x%x`, c)
		}
		return fmt.Sprintf(`\0X%X`, c)
	}
	oct := func() string {
		if c > 0o377 {
			return ""
		}
		if c <= 0o77 && !isOct(next) && p.v(2) == 0 {
			return fmt.Sprintf(`\%o`, c) // 1-2 digit form
		}
		return fmt.Sprintf(`\%03o`, c)
	}
	must := false // must be escaped somehow
	var named string
	switch c {
	case '\\':
		return `\\`
	case '\'':
		named, must = `\'`, ctx == '\''
	case '"':
		named, must = `\"`, ctx == '"'
	case '[':
		named, must = `\[`, ctx == ']'
	case ']':
		named, must = `\]`, ctx == ']'
	case '-':
		named, must = `\-`, ctx == ']'
	case '^':
		if ctx == ']' && first {
			if h := hex(); h != "" {
				return h
			}
			return `\136`
		}
	}
	if l, ok := escLetters[c]; ok {
		named = `\` + string(l)
		if p.v(3) == 0 {
			named = `\` + strings.ToUpper(string(l)) // escape letters are case-insensitive
		}
		// raw control characters other than newline-ish are legal too, but keep files readable
		must = true
	}
	if c < 0x20 || c == 0x7f {
		must = true
	}
	if p.o.V == nil {
		if named != "" && must {
			return named
		}
		if must {
			if h := hex(); h != "" {
				return h
			}
			return fmt.Sprintf(`\%03o`, c)
		}
		return string(c)
	}
	// variant spelling
	cands := []string{}
	if named != "" {
		cands = append(cands, named, named)
	}
	if !must {
		cands = append(cands, string(c), string(c), string(c))
	}
	if h := hex(); h != "" && (must || p.v(6) == 0) {
		cands = append(cands, h)
	}
	if o := oct(); o != "" && (must || p.v(6) == 0) {
		cands = append(cands, o)
	}
	if len(cands) == 0 {
		return fmt.Sprintf(`\%03o`, c)
	}
	return cands[p.o.V.Intn(len(cands))]
}

func (p *printer) lit(e *Expr) {
	q := byte('\'')
	if e.CI {
		q = '"'
	} else if p.o.V != nil && p.o.V.Intn(4) == 0 {
		// a double-quoted literal without ASCII letters means the same as the single-quoted one
		ok := true
		for _, c := range e.Text {
			if isLetter(c) {
				ok = false
			}
		}
		if ok {
			q = '"'
		}
	}
	p.sb.WriteByte(q)
	for i, c := range e.Text {
		next := rune(0)
		if i+1 < len(e.Text) {
			next = e.Text[i+1]
		}
		p.sb.WriteString(p.escRune(c, q, next, false, e.CI))
	}
	p.sb.WriteByte(q)
}

func (p *printer) class(e *Expr) {
	open, close := "[", "]"
	if e.CI {
		open, close = "[[", "]]"
	}
	p.sb.WriteString(open)
	if e.Neg {
		p.sb.WriteString("^")
	}
	for i, it := range e.Items {
		first := i == 0 && !e.Neg
		next := rune(0)
		if it.Lo != it.Hi {
			p.sb.WriteString(p.escRune(it.Lo, ']', '-', first, e.CI))
			p.sb.WriteString("-")
			if i+1 < len(e.Items) {
				next = e.Items[i+1].Lo
			}
			p.sb.WriteString(p.escRune(it.Hi, ']', next, false, e.CI))
			continue
		}
		if i+1 < len(e.Items) {
			next = e.Items[i+1].Lo
		}
		p.sb.WriteString(p.escRune(it.Lo, ']', next, first, e.CI))
	}
	p.sb.WriteString(close)
}

// precedence levels: 0 alternation, 1 sequence, 2 prefix, 3 suffix, 4 primary
func prec(e *Expr) int {
	switch e.K {
	case KAlt:
		return 0
	case KSeq:
		return 1
	case KAnd, KNot, KPred, KState:
		return 2
	case KQuery, KStar, KPlus:
		return 3
	}
	return 4
}

func (p *printer) expr(e *Expr, min int) {
	paren := prec(e) < min
	if (e.K == KAlt || e.K == KSeq) && len(e.Kids) == 1 {
		// a one-element list is just its element
		p.expr(e.Kids[0], min)
		return
	}
	if !paren && p.o.V != nil && p.o.V.Intn(14) == 0 && e.K != KNil {
		paren = true // redundant parentheses never change the meaning
	}
	if paren {
		p.sb.WriteString("(")
		p.sp("")
		p.expr1(e)
		p.sb.WriteString(")")
		p.sp("")
		return
	}
	p.expr1(e)
}

func (p *printer) expr1(e *Expr) {
	switch e.K {
	case KAlt:
		for i, k := range e.Kids {
			if i > 0 {
				p.sb.WriteString("/")
				p.sp(" ")
			}
			if k.K == KNil && i == len(e.Kids)-1 && i > 0 {
				// trailing slash = empty last alternative (already written the slash)
				if p.v(2) == 0 {
					break
				}
			}
			p.expr(k, 1)
		}
	case KSeq:
		for _, k := range e.Kids {
			p.expr(k, 2)
		}
	case KAnd, KNot:
		if e.K == KAnd {
			p.sb.WriteString("&")
		} else {
			p.sb.WriteString("!")
		}
		p.sp("")
		k := e.Kids[0]
		left := k
		for left.K == KQuery || left.K == KStar || left.K == KPlus {
			left = left.Kids[0]
		}
		if left.K == KAction {
			// "&{" would read as a semantic predicate (also for &{...}? etc.)
			p.sb.WriteString("(")
			p.expr1(k)
			p.sb.WriteString(")")
			p.sp(" ")
		} else {
			p.expr(k, 3)
		}
	case KQuery, KStar, KPlus:
		p.expr(e.Kids[0], 4)
		// the suffix must follow its operand's trailing spacing; that is legal ("a ?")
		p.sb.WriteString(map[Kind]string{KQuery: "?", KStar: "*", KPlus: "+"}[e.K])
		p.sp(" ")
	case KCapture:
		p.sb.WriteString("<")
		p.sp(" ")
		p.expr(e.Kids[0], 0)
		p.sb.WriteString(">")
		p.sp(" ")
	case KAction:
		code := fmt.Sprintf("p.act(%d, text, begin, end)", e.ID)
		if p.o.ActionCode != nil {
			code = p.o.ActionCode(e.ID)
		}
		p.sb.WriteString("{ " + code + " }")
		p.sp(" ")
	case KLit:
		p.lit(e)
		p.sp(" ")
	case KClass:
		p.class(e)
		p.sp(" ")
	case KDot:
		p.sb.WriteString(".")
		p.sp(" ")
	case KRef:
		p.sb.WriteString(e.Name)
		p.sp(" ")
	case KNil:
		// the empty expression: "()" — or an empty literal, which means the same
		p.sb.WriteString([]string{"()", "()", "''", "\"\""}[p.v(4)])
		p.sp(" ")
	case KPred:
		p.sb.WriteString("&")
		p.sp("")
		code := PredCode(e)
		if p.o.PredText != nil {
			code = p.o.PredText(e)
		}
		// a predicate is any Go expression: spell some with a binary operator at the top (same value, the
		// operand still evaluated exactly once), which the generator has to keep together when it negates it
		// (an operator is only put BEHIND a text without line comments and line ends: "a // c\n || false" is no Go
		// expression, the line end after "a" ends the statement)
		tailOK := !strings.Contains(code, "//") && !strings.Contains(code, "\n")
		switch p.v(10) {
		case 0:
			code = "false || " + code
		case 1:
			if tailOK {
				code = code + " || false"
			}
		case 2:
			code = "true && " + code
		case 3:
			if tailOK {
				code = code + " && true"
			}
		}
		p.sb.WriteString("{ " + code + " }")
		p.sp(" ")
	case KState:
		code := fmt.Sprintf("p.note(%d, int(position))", e.ID)
		if p.o.StateCode != nil {
			code = p.o.StateCode(e.ID)
		}
		p.sb.WriteString("!")
		p.sp("")
		p.sb.WriteString("{ " + code + " }")
		p.sp(" ")
	}
}

func PredCode(e *Expr) string {
	switch e.Pred {
	case PTrue:
		return "true"
	case PFalse:
		return "false"
	case PFn:
		return fmt.Sprintf("p.P(%d, int(position))", e.Arg)
	case PEnter:
		return fmt.Sprintf("p.enter(%d, int(position), int(tokenIndex))", e.Arg)
	case PChk:
		return "p.chk(int(position), len(buffer))"
	}
	return "true"
}

// Print renders one expression (canonical spelling if v == nil).
func Print(e *Expr, v *rand.Rand) string {
	p := &printer{o: &PrintOpts{V: v}}
	p.expr(e, 0)
	return strings.TrimRight(p.sb.String(), " ")
}

// PrintGrammar renders a whole .peg file.
func PrintGrammar(g *Grammar, o PrintOpts) string {
	p := &printer{o: &o}
	typ := o.Type
	if typ == "" {
		typ = "P"
	}
	p.sb.WriteString(o.Header)
	p.sb.WriteString("package " + o.Package + "\n\n")
	for _, im := range o.Imports {
		p.sb.WriteString(im + "\n")
	}
	if len(o.Imports) > 0 {
		p.sb.WriteString("\n")
	}
	p.sb.WriteString("type " + typ + " Peg {\n" + o.State + "\n}\n\n")
	for _, r := range g.Rules {
		p.sb.WriteString(r.Name)
		p.sp(" ")
		if o.V != nil && o.V.Intn(3) == 0 {
			p.sb.WriteString("←")
		} else {
			p.sb.WriteString("<-")
		}
		p.sp(" ")
		if r.E.K == KNil && p.v(2) == 0 {
			// an empty rule body is allowed
		} else {
			p.expr(r.E, 0)
		}
		p.sb.WriteString("\n")
	}
	return p.sb.String()
}
