package gram

import (
	"fmt"
	"math/rand"
)

// Profile shapes the random grammar generator. Weights are relative.
type Profile struct {
	Name      string
	MinRules  int
	MaxRules  int
	MaxDepth  int
	Alphabet  []rune
	WSeq      int
	WAlt      int
	WQuery    int
	WStar     int
	WPlus     int
	WAnd      int
	WNot      int
	WCapture  int
	WAction   int
	WPred     int // &{true}/&{false}/&{p.P(k,pos)}
	WState    int
	WLeaf     int
	AltMin    int
	AltMax    int
	NilAltPct int // percentage of choices that get a trailing empty alternative
	// leaf mix
	LLit, LStr, LCILit, LRange, LClass, LNegClass, LCIClass, LDot, LRef int
	EnterProbes                                                         bool // plant &{p.enter(rule,pos,tokenIndex)} at the head of every rule body
	ChkProbes                                                           bool // plant &{p.chk(position,len(buffer))} bounds assertions
	MultiRef                                                            bool // prefer referencing rules more than once (so that -inline keeps them)
}

var DefaultAlphabet = []rune("abcdABxyz01\n é€😀")

// AllOps is the "every operator" profile used by C01/C11/C13.
func AllOps() *Profile {
	return &Profile{Name: "all-operators", MinRules: 1, MaxRules: 7, MaxDepth: 4, Alphabet: DefaultAlphabet,
		WSeq: 5, WAlt: 5, WQuery: 2, WStar: 2, WPlus: 2, WAnd: 2, WNot: 2, WCapture: 2, WAction: 2, WPred: 2, WState: 1, WLeaf: 4,
		AltMin: 2, AltMax: 5, NilAltPct: 15,
		LLit: 6, LStr: 3, LCILit: 2, LRange: 3, LClass: 2, LNegClass: 2, LCIClass: 2, LDot: 2, LRef: 5}
}

type gen struct {
	r     *rand.Rand
	p     *Profile
	names []string
}

func (g *gen) ch() rune { return g.p.Alphabet[g.r.Intn(len(g.p.Alphabet))] }

func pick(r *rand.Rand, w ...int) int {
	t := 0
	for _, x := range w {
		t += x
	}
	if t == 0 {
		return 0
	}
	n := r.Intn(t)
	for i, x := range w {
		if n < x {
			return i
		}
		n -= x
	}
	return len(w) - 1
}

func (g *gen) item() Item {
	a, b := g.ch(), g.ch()
	if g.r.Intn(3) == 0 {
		return Item{a, a}
	}
	if a > b {
		a, b = b, a
	}
	if b-a > 40 { // keep ranges narrow enough that neighbours are meaningful inputs
		b = a + rune(g.r.Intn(6))
	}
	return Item{a, clampHi(a, b)}
}

func (g *gen) ciItem() Item {
	// case-insensitive items: single runes, or ranges of letters of one case
	if g.r.Intn(2) == 0 {
		return Item{g.ch(), 0}.single()
	}
	lo := rune('a' + g.r.Intn(20))
	hi := lo + rune(g.r.Intn(5))
	if g.r.Intn(2) == 0 {
		lo, hi = lo-32, hi-32
	}
	return Item{lo, hi}
}

func (i Item) single() Item { return Item{i.Lo, i.Lo} }

func (g *gen) leaf() *Expr {
	p := g.p
	switch pick(g.r, p.LLit, p.LStr, p.LCILit, p.LRange, p.LClass, p.LNegClass, p.LCIClass, p.LDot, p.LRef) {
	case 0:
		return &Expr{K: KLit, Text: []rune{g.ch()}}
	case 1:
		n := 2 + g.r.Intn(3)
		t := make([]rune, n)
		for i := range t {
			t[i] = g.ch()
		}
		return &Expr{K: KLit, Text: t}
	case 2:
		n := 1 + g.r.Intn(3)
		t := make([]rune, n)
		for i := range t {
			t[i] = g.ch()
		}
		return &Expr{K: KLit, Text: t, CI: true}
	case 3:
		it := g.item()
		if it.Lo == it.Hi {
			it.Hi = clampHi(it.Lo, it.Lo+rune(1+g.r.Intn(4)))
		}
		return &Expr{K: KClass, Items: []Item{it}}
	case 4:
		if g.r.Intn(5) == 0 {
			return BridgingClass(g.r, []rune{'a', 'A', '0'}[g.r.Intn(3)])
		}
		n := 2 + g.r.Intn(4)
		e := &Expr{K: KClass}
		for i := 0; i < n; i++ {
			e.Items = append(e.Items, g.item())
		}
		return e
	case 5:
		n := 1 + g.r.Intn(3)
		e := &Expr{K: KClass, Neg: true}
		for i := 0; i < n; i++ {
			e.Items = append(e.Items, g.item())
		}
		return e
	case 6:
		n := 1 + g.r.Intn(3)
		e := &Expr{K: KClass, CI: true, Neg: g.r.Intn(3) == 0}
		for i := 0; i < n; i++ {
			e.Items = append(e.Items, g.ciItem())
		}
		return e
	case 7:
		return &Expr{K: KDot}
	default:
		return &Expr{K: KRef, Name: g.names[g.r.Intn(len(g.names))]}
	}
}

func (g *gen) expr(depth int) *Expr {
	p := g.p
	if depth <= 0 {
		return g.leaf()
	}
	switch pick(g.r, p.WSeq, p.WAlt, p.WQuery, p.WStar, p.WPlus, p.WAnd, p.WNot, p.WCapture, p.WAction, p.WPred, p.WState, p.WLeaf) {
	case 0:
		n := 2 + g.r.Intn(3)
		e := &Expr{K: KSeq}
		for i := 0; i < n; i++ {
			e.Kids = append(e.Kids, g.expr(depth-1))
		}
		if g.r.Intn(12) == 0 {
			// an empty element ( () or '' ) somewhere in the sequence, often last
			at := len(e.Kids)
			if g.r.Intn(3) == 0 {
				at = g.r.Intn(len(e.Kids) + 1)
			}
			e.Kids = append(e.Kids[:at:at], append([]*Expr{{K: KNil}}, e.Kids[at:]...)...)
		}
		return e
	case 1:
		n := p.AltMin + g.r.Intn(p.AltMax-p.AltMin+1)
		e := &Expr{K: KAlt}
		for i := 0; i < n; i++ {
			e.Kids = append(e.Kids, g.expr(depth-1))
		}
		if p.WNot+p.WAnd > 0 && g.r.Intn(7) == 0 {
			// a non-last alternative that is nothing but a lookahead whose operand consumes before it decides
			k := KNot
			if g.r.Intn(2) == 0 {
				k = KAnd
			}
			at := g.r.Intn(len(e.Kids))
			look := Un(k, Seq(g.leaf(), g.leaf()))
			e.Kids = append(e.Kids[:at:at], append([]*Expr{look}, e.Kids[at:]...)...)
		}
		if g.r.Intn(100) < p.NilAltPct {
			e.Kids = append(e.Kids, &Expr{K: KNil})
		}
		return e
	case 2:
		return Un(KQuery, g.expr(depth-1))
	case 3:
		return Un(KStar, g.expr(depth-1))
	case 4:
		return Un(KPlus, g.expr(depth-1))
	case 5:
		return Un(KAnd, g.expr(depth-1))
	case 6:
		return Un(KNot, g.expr(depth-1))
	case 7:
		return Un(KCapture, g.expr(depth-1))
	case 8:
		return &Expr{K: KAction}
	case 9:
		switch g.r.Intn(4) {
		case 0:
			return Pred(PFalse, 0)
		case 1:
			return Pred(PTrue, 0)
		default:
			return Pred(PFn, g.r.Intn(5))
		}
	case 10:
		return &Expr{K: KState}
	default:
		return g.leaf()
	}
}

// Random generates a well-formed grammar from the profile (retrying until well-formed).
func Random(r *rand.Rand, p *Profile) *Grammar {
	for try := 0; ; try++ {
		n := p.MinRules
		if p.MaxRules > p.MinRules {
			n += r.Intn(p.MaxRules - p.MinRules + 1)
		}
		if n < 1 {
			n = 1
		}
		g := &gen{r: r, p: p}
		for i := 0; i < n; i++ {
			g.names = append(g.names, fmt.Sprintf("R%d", i))
		}
		gr := &Grammar{}
		for i := 0; i < n; i++ {
			d := 1 + r.Intn(p.MaxDepth)
			gr.Rules = append(gr.Rules, &Rule{Name: g.names[i], E: g.expr(d)})
		}
		if p.MultiRef && n > 1 {
			// reference every non-first rule at least twice somewhere under the first rule
			extra := &Expr{K: KAlt}
			for i := 1; i < n; i++ {
				extra.Kids = append(extra.Kids, Ref(g.names[i]))
			}
			gr.Rules[0].E = Seq(gr.Rules[0].E, Un(KQuery, extra))
		}
		if !gr.WellFormed() {
			continue
		}
		Finish(gr, p)
		return gr
	}
}

// Finish plants observer probes and numbers actions.
func Finish(gr *Grammar, p *Profile) {
	if p != nil && p.EnterProbes {
		for i, r := range gr.Rules {
			r.E = Seq(Pred(PEnter, i), r.E)
		}
	}
	if p != nil && p.ChkProbes {
		for _, r := range gr.Rules {
			r.E = Seq(r.E, Pred(PChk, 0))
		}
	}
	gr.Number()
}

// HasTerminal: the grammar contains at least one terminal (peg emits uncompilable code otherwise — see F6).
func (g *Grammar) HasTerminal() bool {
	t := false
	g.Walk(func(_ *Rule, e *Expr) {
		if e.K == KLit || e.K == KClass || e.K == KDot {
			t = true
		}
	})
	return t
}

// ---------- inputs ----------

// Derive produces an input by a random derivation walk from rule start: mostly (not always) accepted.
func Derive(r *rand.Rand, g *Grammar, start string, alphabet []rune) []rune {
	out, _ := derive(r, g, start, alphabet, false)
	return out
}

// DeriveSibling derives an input and then replaces, at one choice point of the derivation, the first rune of the
// chosen alternative by a first rune of a sibling alternative ("5x1f" for ('0' [xX] hex+ / [0-9]+)): the rest of
// the text still belongs to the chosen alternative. This separates a parser that checks the first character of
// the alternative it enters from one that only dispatched on it.
func DeriveSibling(r *rand.Rand, g *Grammar, start string, alphabet []rune) []rune {
	out, cands := derive(r, g, start, alphabet, true)
	if len(cands) == 0 || len(out) == 0 {
		return out
	}
	c := cands[r.Intn(len(cands))]
	if c.pos < len(out) {
		out[c.pos] = c.c
	}
	return out
}

type sibling struct {
	pos int
	c   rune
}

// DeriveN is Derive with an explicit step budget (large real-world grammars need more than the default 300).
func DeriveN(r *rand.Rand, g *Grammar, start string, alphabet []rune, steps int) []rune {
	deriveBudget = steps
	defer func() { deriveBudget = 300 }()
	out, _ := derive(r, g, start, alphabet, false)
	return out
}

var deriveBudget = 300

func derive(r *rand.Rand, g *Grammar, start string, alphabet []rune, record bool) ([]rune, []sibling) {
	var out []rune
	var cands []sibling
	budget := deriveBudget
	var walk func(e *Expr, depth int)
	walk = func(e *Expr, depth int) {
		budget--
		if budget < 0 || depth > 40 {
			return
		}
		switch e.K {
		case KSeq:
			for _, k := range e.Kids {
				walk(k, depth+1)
			}
		case KAlt:
			i := r.Intn(len(e.Kids))
			if record && budget > 100 {
				p := len(out)
				for j, k := range e.Kids {
					if j == i {
						continue
					}
					// first rune of a derivation of the sibling
					saveOut, saveBudget := out, budget
					out, budget = nil, 40
					rec := record
					record = false
					walk(k, depth+1)
					record = rec
					if len(out) > 0 {
						cands = append(cands, sibling{p, out[0]})
					}
					out, budget = saveOut, saveBudget
				}
			}
			walk(e.Kids[i], depth+1)
		case KQuery:
			if r.Intn(2) == 0 {
				walk(e.Kids[0], depth+1)
			}
		case KStar:
			for i := r.Intn(4); i > 0; i-- {
				walk(e.Kids[0], depth+1)
			}
		case KPlus:
			for i := 1 + r.Intn(3); i > 0; i-- {
				walk(e.Kids[0], depth+1)
			}
		case KCapture:
			walk(e.Kids[0], depth+1)
		case KLit:
			for _, c := range e.Text {
				if e.CI && isLetter(c) && r.Intn(2) == 0 {
					c ^= 0x20
				}
				out = append(out, c)
			}
		case KClass:
			if e.Neg {
				out = append(out, alphabet[r.Intn(len(alphabet))])
				return
			}
			it := e.Items[r.Intn(len(e.Items))]
			c := it.Lo + rune(r.Intn(int(it.Hi-it.Lo)+1))
			if e.CI && isLetter(c) && r.Intn(2) == 0 {
				c ^= 0x20
			}
			out = append(out, c)
		case KDot:
			out = append(out, alphabet[r.Intn(len(alphabet))])
		case KRef:
			if rr := g.Rule(e.Name); rr != nil {
				walk(rr.E, depth+1)
			}
		}
	}
	if rr := g.Rule(start); rr != nil {
		walk(rr.E, 0)
	}
	return out, cands
}

// Mutate applies one random edit.
func Mutate(r *rand.Rand, in []rune, alphabet []rune) []rune {
	out := append([]rune(nil), in...)
	c := alphabet[r.Intn(len(alphabet))]
	if len(out) == 0 {
		return []rune{c}
	}
	i := r.Intn(len(out))
	switch r.Intn(6) {
	case 0:
		out[i] = c
	case 1:
		out = append(out[:i], out[i+1:]...)
	case 2:
		out = append(out[:i], append([]rune{c}, out[i:]...)...)
	case 3:
		out = out[:i]
	case 4:
		out = append(out, out[i:]...)
	case 5:
		out = append(out, c)
	}
	return out
}

// Inputs returns n inputs for entry rule start: derivation walks, mutations, random strings over the
// interesting runes of the grammar, and the boundary cases (empty, single runes).
func Inputs(r *rand.Rand, g *Grammar, start string, n int, alphabet []rune) []string {
	interesting := g.Runes()
	alpha := append(append([]rune(nil), alphabet...), interesting...)
	seen := map[string]bool{}
	var out []string
	add := func(s []rune) {
		if len(s) > 64 {
			s = s[:64]
		}
		k := string(s)
		if !seen[k] {
			seen[k] = true
			out = append(out, k)
		}
	}
	add(nil)
	for tries := 0; len(out) < n+6 && tries < n*10; tries++ {
		switch r.Intn(16) {
		case 13, 14, 15:
			// every single-substitution variant of one derivation (bounded)
			base, cands := derive(r, g, start, alpha, true)
			r.Shuffle(len(cands), func(i, j int) { cands[i], cands[j] = cands[j], cands[i] })
			for k, c := range cands {
				if k >= 6 || c.pos >= len(base) {
					break
				}
				v := append([]rune{}, base...)
				v[c.pos] = c.c
				add(v)
			}
		case 10, 11, 12:
			// cross-over of two derivations: the first rune(s) of one alternative followed by the rest of another,
			// or one position exchanged; this is what separates "the case key was checked" from "it was assumed"
			a, b := Derive(r, g, start, alpha), Derive(r, g, start, alpha)
			if len(a) == 0 || len(b) == 0 {
				add(a)
				break
			}
			switch r.Intn(3) {
			case 0:
				k := 1 + r.Intn(2)
				if k > len(b) {
					k = len(b)
				}
				if k > len(a) {
					k = len(a)
				}
				add(append(append([]rune{}, b[:k]...), a[k:]...))
			case 1:
				i, j := r.Intn(len(a)+1), r.Intn(len(b)+1)
				add(append(append([]rune{}, a[:i]...), b[j:]...))
			default:
				i := r.Intn(min(len(a), len(b)))
				c := append([]rune{}, a...)
				c[i] = b[i]
				add(c)
			}
		case 0, 1, 2, 3:
			add(Derive(r, g, start, alpha))
		case 4, 5, 6:
			add(Mutate(r, Derive(r, g, start, alpha), alpha))
		case 7:
			add(Mutate(r, Mutate(r, Derive(r, g, start, alpha), alpha), alpha))
		case 8:
			m := 1 + r.Intn(6)
			s := make([]rune, m)
			for i := range s {
				s[i] = alpha[r.Intn(len(alpha))]
			}
			add(s)
		case 9:
			// a derivation whose first rune is replaced by an interesting neighbour
			s := Derive(r, g, start, alpha)
			if len(s) > 0 && len(interesting) > 0 {
				s[0] = interesting[r.Intn(len(interesting))]
			}
			add(s)
		}
	}
	return out
}

// ---------- C02: choice-heavy profile (targets peg's -switch optimiser and -inline) ----------

// ChoiceHeavy builds grammars whose choices have 3-8 alternatives drawn from a palette that stresses first-set
// reasoning: nullable alternatives, alternatives starting with lookahead, ranges/classes (disjoint, adjacent,
// nested, overlapping by one rune), multi-key first sets, '.'-initial alternatives, nested choices, the same
// shapes behind rule references used once (inlinable) or several times, under * + ? and inside lookahead.
func ChoiceHeavy(r *rand.Rand) *Grammar {
	alpha := []rune("abcdefgz")
	switch r.Intn(7) {
	case 6:
		// letters outside ASCII (2-, 3- and 4-byte encodings whose lead bytes are themselves Latin-1 letters)
		alpha = []rune("éèæøåßñçü日本語かな😀𝔘a")
	case 0:
		alpha = []rune{0, 'a', 'b', 'c', 0x10FFFF, 0x10FFFE, 'é'}
	case 1, 2, 3:
		// a wide alphabet: alternatives with several first characters can still be pairwise disjoint, so that
		// multi-key switch cases (not only single-key ones) are produced
		alpha = []rune("abcdefghijklmnopqrstuvwxyz0123456789")
	}
	for {
		g := &gen{r: r, p: &Profile{Alphabet: alpha}}
		nr := 1 + r.Intn(5)
		for i := 0; i < nr; i++ {
			g.names = append(g.names, fmt.Sprintf("R%d", i))
		}
		ch := func() rune { return alpha[r.Intn(len(alpha))] }
		wide := len(alpha) > 20
		term := func() *Expr {
			if wide && r.Intn(9) == 0 {
				return BridgingClass(r, []rune{'a', 'e', 'k'}[r.Intn(3)])
			}
			if wide && r.Intn(8) == 0 {
				// a wide class: it takes the role of the switch's default case, so that narrower multi-key
				// alternatives become real cases
				w := [][2]rune{{'a', 'm'}, {'n', 'z'}, {'0', '9'}, {'a', 'z'}, {'h', 'z'}}[r.Intn(5)]
				return &Expr{K: KClass, Items: []Item{{w[0], w[1]}}}
			}
			switch r.Intn(7) {
			case 0, 1, 2:
				return &Expr{K: KLit, Text: []rune{ch()}}
			case 3:
				a := ch()
				return &Expr{K: KClass, Items: []Item{{a, clampRune(a + rune(r.Intn(4)))}}}
			case 4:
				e := &Expr{K: KClass}
				for i := 0; i < 2+r.Intn(3); i++ {
					a := ch()
					if r.Intn(2) == 0 {
						e.Items = append(e.Items, Item{a, a})
					} else {
						e.Items = append(e.Items, Item{a, clampRune(a + rune(r.Intn(3)))})
					}
				}
				return e
			case 5:
				return &Expr{K: KLit, Text: []rune{ch(), ch()}}
			default:
				if r.Intn(3) == 0 {
					return &Expr{K: KDot}
				}
				return &Expr{K: KLit, Text: []rune{ch()}, CI: true}
			}
		}
		var alternative func(depth int) *Expr
		var choice func(depth int) *Expr
		tail := func() []*Expr {
			var t []*Expr
			defer func() {
				if len(t) > 0 && r.Intn(10) == 0 {
					t = append(t, &Expr{K: KNil}) // a trailing empty element
				}
			}()
			for i := r.Intn(3); i > 0; i-- {
				switch r.Intn(6) {
				case 0:
					t = append(t, Un(KQuery, term()))
				case 1:
					t = append(t, Un(KStar, term()))
				case 2:
					t = append(t, &Expr{K: KAction})
				case 3:
					t = append(t, Ref(g.names[r.Intn(len(g.names))]))
				default:
					t = append(t, term())
				}
			}
			return t
		}
		alternative = func(depth int) *Expr {
			var head []*Expr
			hk := r.Intn(19)
			if hk >= 16 {
				hk = 8 // the inner-choice head gets extra weight
			}
			switch hk {
			case 0:
				head = []*Expr{Un(KQuery, term())} // nullable
			case 1:
				head = []*Expr{Un(KStar, term())} // nullable
			case 2:
				head = []*Expr{&Expr{K: KAction}} // empty first set
			case 3:
				head = []*Expr{Un(KAnd, term()), term()} // lookahead then terminal
			case 4:
				head = []*Expr{Un(KNot, term()), term()}
			case 5:
				head = []*Expr{Un(KNot, term()), &Expr{K: KDot}}
			case 6:
				head = []*Expr{Ref(g.names[r.Intn(len(g.names))])}
			case 7:
				if depth > 0 {
					head = []*Expr{choice(depth - 1)}
				} else {
					head = []*Expr{term()}
				}
			case 8:
				// a capture (or a bare group) whose body starts with a small inner choice of sequences with different
				// first characters: the "first comparison may be skipped" flag travels through <...> and ( / )
				first := term()
				if r.Intn(2) == 0 { // often a small range: "is the first comparison really implied by the case keys?"
					a := ch()
					first = &Expr{K: KClass, Items: []Item{{a, clampHi(a, a+1+rune(r.Intn(3)))}}}
				}
				if r.Intn(6) == 0 {
					// an inverted range (it matches nothing) as the head of the first branch: the case keys come from
					// the other branches alone
					a := ch()
					first = &Expr{K: KClass, Items: []Item{{clampHi(a, a+2), a}}}
				}
				inner := Alt(Seq(first, term()), Seq(term(), Un(KQuery, term())))
				if r.Intn(3) == 0 {
					inner.Kids = append(inner.Kids, term())
				}
				switch r.Intn(3) {
				case 0:
					head = []*Expr{Un(KCapture, term())}
				case 1:
					head = []*Expr{Un(KCapture, inner)}
				default:
					head = []*Expr{inner}
				}
			case 9:
				// e+ heading an alternative: over a bare terminal, over a sequence, over a small choice (the "first
				// comparison already done" knowledge of a switch case holds for the first round of the loop only)
				switch r.Intn(3) {
				case 0:
					head = []*Expr{Un(KPlus, term())}
				case 1:
					head = []*Expr{Un(KPlus, Seq(term(), term())), term()}
				default:
					head = []*Expr{Un(KPlus, Alt(Seq(term(), term()), term())), Un(KQuery, term())}
				}
			case 10:
				if r.Intn(2) == 0 {
					// an alternative that is NOTHING but a lookahead over something that consumes before it decides
					k := KNot
					if r.Intn(2) == 0 {
						k = KAnd
					}
					return Un(k, Seq(term(), term()))
				}
				head = []*Expr{Un(KAnd, term())} // pure lookahead: empty first set, non-consuming
			case 11:
				head = []*Expr{Un(KQuery, term()), term()} // nullable prefix then terminal: two possible first runes
			default:
				head = []*Expr{term()}
			}
			kids := append(head, tail()...)
			if len(kids) == 1 {
				return kids[0]
			}
			return &Expr{K: KSeq, Kids: kids}
		}
		// disjoint: a choice whose alternatives start with pairwise different characters (drawn without
		// replacement), so that peg's -switch turns the WHOLE choice into a switch; alternatives record tokens
		// (captures, actions, rule calls) so that what happens to them inside lookahead/repetition is observable
		disjoint := func() *Expr {
			perm := r.Perm(len(alpha))
			n := 3 + r.Intn(4)
			if n > len(alpha)/2 {
				n = len(alpha) / 2
			}
			e := &Expr{K: KAlt}
			pi := 0
			next := func() rune {
				for {
					c := alpha[perm[pi%len(perm)]]
					pi++
					if !(wide && c >= '0' && c <= '9') || pi > 3*len(perm) {
						return c
					}
				}
			}
			for i := 0; i < n; i++ {
				c1 := next()
				var first *Expr
				switch r.Intn(7) {
				case 6:
					// a loop over a sequence that starts with the (single) key of the case: the key is known to be there
					// in the first round only
					if r.Intn(2) == 0 {
						first = Un(KPlus, Seq(&Expr{K: KLit, Text: []rune{c1}}, term()))
					} else {
						first = Un(KPlus, Alt(Seq(&Expr{K: KLit, Text: []rune{c1}}, term()), &Expr{K: KLit, Text: []rune{c1}}))
					}
				case 5:
					// an inner choice whose first branch starts with a small range and whose second branch starts elsewhere
					c2 := next()
					rg := &Expr{K: KClass, Items: []Item{{c1, clampHi(c1, c1+1)}}}
					if r.Intn(3) == 0 {
						rg = &Expr{K: KClass, Items: []Item{{clampHi(c1, c1+2), c1}}} // inverted: matches nothing, the case has the single key c2
					}
					first = Alt(Seq(rg, term()), Seq(&Expr{K: KLit, Text: []rune{c2}}, term()))
					if r.Intn(2) == 0 {
						first = Un(KCapture, first)
					}
				case 0:
					first = Un(KCapture, &Expr{K: KLit, Text: []rune{c1}})
				case 1:
					c2 := next()
					first = &Expr{K: KClass, Items: []Item{{c1, c1}, {c2, c2}}}
				case 2:
					c2 := next()
					first = Un(KCapture, Alt(Seq(&Expr{K: KLit, Text: []rune{c1}}, term()), Seq(&Expr{K: KLit, Text: []rune{c2}}, Un(KQuery, term()))))
				default:
					first = &Expr{K: KLit, Text: []rune{c1}}
				}
				kids := append([]*Expr{first}, tail()...)
				if r.Intn(2) == 0 {
					kids = append(kids, &Expr{K: KAction})
				}
				e.Kids = append(e.Kids, &Expr{K: KSeq, Kids: kids})
			}
			if wide && r.Intn(2) == 0 {
				// one alternative with many first characters: it becomes the switch's default, the others real cases
				e.Kids = append(e.Kids, Seq(&Expr{K: KClass, Items: []Item{{'0', '9'}}}, Un(KQuery, term())))
			}
			return e
		}
		choice = func(depth int) *Expr {
			if r.Intn(3) == 0 && len(alpha) >= 8 {
				return disjoint()
			}
			n := 3 + r.Intn(6)
			e := &Expr{K: KAlt}
			for i := 0; i < n; i++ {
				e.Kids = append(e.Kids, alternative(depth))
			}
			if r.Intn(6) == 0 {
				e.Kids = append(e.Kids, &Expr{K: KNil})
			}
			return e
		}
		gr := &Grammar{}
		for i := 0; i < nr; i++ {
			var body *Expr
			switch r.Intn(5) {
			case 0:
				body = Seq(choice(1), Un(KStar, choice(0)))
			case 1:
				body = Un(KPlus, choice(1))
			case 2:
				body = Seq(Un(KQuery, choice(0)), choice(1))
			case 3:
				body = Seq(Un(KAnd, choice(0)), choice(1))
			default:
				body = choice(2)
			}
			gr.Rules = append(gr.Rules, &Rule{Name: g.names[i], E: body})
		}
		if !gr.WellFormed() {
			continue
		}
		gr.Number()
		return gr
	}
}

func clampRune(c rune) rune {
	if c > 0x10FFFF {
		return 0x10FFFF
	}
	if c >= 0xD800 && c <= 0xDFFF {
		return 0xD7FF
	}
	return c
}

// ---------- shared-prefix / revisit profile (C03, C04, C06, C12) ----------

// Backtracky builds grammars in which tokens are written and then abandoned: alternatives sharing long prefixes
// made of rule calls, captures and actions; repetitions whose last iteration fails after writing tokens;
// captures/actions/rule calls inside & and !; rules re-entered at the same offset from different contexts
// (so that packrat memoisation has hits to replay, in contexts that then succeed and contexts that then fail).
func Backtracky(r *rand.Rand, alphabet []rune) *Grammar {
	if alphabet == nil {
		alphabet = []rune("abc\né😀")
	}
	for {
		ch := func() rune { return alphabet[r.Intn(len(alphabet))] }
		nh := 2 + r.Intn(4)
		names := []string{"R0"}
		for i := 0; i < nh; i++ {
			names = append(names, fmt.Sprintf("H%d", i))
		}
		term := func() *Expr {
			switch r.Intn(6) {
			case 0:
				a := ch()
				return &Expr{K: KClass, Items: []Item{{a, clampRune(a + 2)}}}
			case 1:
				return &Expr{K: KLit, Text: []rune{ch(), ch()}}
			case 2:
				return &Expr{K: KDot}
			default:
				return &Expr{K: KLit, Text: []rune{ch()}}
			}
		}
		href := func() *Expr { return Ref(names[1+r.Intn(nh)]) }
		// one consuming "piece" that records tokens
		piece := func() *Expr {
			switch r.Intn(9) {
			case 0, 1, 2:
				return href()
			case 3:
				return Un(KCapture, term())
			case 4:
				return Seq(Un(KCapture, Un(KPlus, term())), Act())
			case 5:
				return Seq(Act(), term())
			case 6:
				return Seq(term(), Act())
			case 7:
				return Un(KCapture, Seq(href(), Un(KQuery, term())))
			default:
				return term()
			}
		}
		prefix := func() []*Expr {
			n := 1 + r.Intn(3)
			var p []*Expr
			for i := 0; i < n; i++ {
				p = append(p, piece())
			}
			return p
		}
		clone := func(es []*Expr) []*Expr {
			g := &Grammar{Rules: []*Rule{{Name: "x", E: &Expr{K: KSeq, Kids: es}}}}
			return g.Clone().Rules[0].E.Kids
		}
		shared := func() *Expr {
			p := prefix()
			alt := &Expr{K: KAlt}
			n := 2 + r.Intn(3)
			for i := 0; i < n; i++ {
				kids := clone(p)
				if i < n-1 || r.Intn(2) == 0 {
					kids = append(kids, piece())
					if r.Intn(2) == 0 {
						kids = append(kids, Act())
					}
				}
				alt.Kids = append(alt.Kids, &Expr{K: KSeq, Kids: kids})
			}
			return alt
		}
		look := func() *Expr {
			p := prefix()
			switch r.Intn(4) {
			case 0: // &P P tail
				return &Expr{K: KSeq, Kids: append([]*Expr{Un(KAnd, &Expr{K: KSeq, Kids: clone(p)})}, append(clone(p), Un(KQuery, piece()))...)}
			case 1: // !(P x) P
				return &Expr{K: KSeq, Kids: append([]*Expr{Un(KNot, &Expr{K: KSeq, Kids: append(clone(p), term())})}, clone(p)...)}
			case 2: // (!P . )* P
				return Seq(Un(KStar, Seq(Un(KNot, &Expr{K: KSeq, Kids: clone(p)}), Dot())), &Expr{K: KSeq, Kids: clone(p)})
			default: // &(<x> {a}) x
				t := term()
				t2 := *t
				return Seq(Un(KAnd, Seq(Un(KCapture, t), Act())), &t2)
			}
		}
		rep := func() *Expr {
			p := prefix()
			// (P x)* P y : the last iteration of the star fails after P wrote its tokens
			return Seq(Un(KStar, &Expr{K: KSeq, Kids: append(clone(p), term())}), &Expr{K: KSeq, Kids: append(clone(p), Un(KQuery, term()))})
		}
		// interleaved: A x / B y / A z [/ B w]: between the two visits of A at one offset a DIFFERENT prefix B is
		// tried there (and may write fewer or more tokens into the same slots before it fails)
		interleaved := func() *Expr {
			p, q := prefix(), prefix()
			alt := &Expr{K: KAlt}
			mk := func(pre []*Expr) *Expr {
				return &Expr{K: KSeq, Kids: append(clone(pre), term())}
			}
			alt.Kids = append(alt.Kids, mk(p), mk(q), mk(p))
			if r.Intn(2) == 0 {
				alt.Kids = append(alt.Kids, mk(q))
			}
			if r.Intn(2) == 0 {
				alt.Kids = append(alt.Kids, &Expr{K: KSeq, Kids: clone(p)})
			}
			return alt
		}
		top := func() *Expr {
			switch r.Intn(6) {
			case 4, 5:
				return interleaved()
			case 0:
				return shared()
			case 1:
				return look()
			case 2:
				return rep()
			default:
				return Seq(shared(), Un(KQuery, look()))
			}
		}
		g := &Grammar{}
		body := top()
		switch r.Intn(4) {
		case 0:
			body = Seq(body, Un(KStar, top()))
		case 1:
			body = Seq(Un(KPlus, body), Un(KNot, Dot()))
		case 2:
			body = Alt(Seq(body, Un(KNot, Dot())), top())
		}
		g.Rules = append(g.Rules, &Rule{Name: "R0", E: body})
		for i := 0; i < nh; i++ {
			var e *Expr
			switch r.Intn(8) {
			case 6, 7:
				// a helper whose own alternatives call the same rules again ("Item ',' List / Item"): analyses that
				// walk rule references (always-succeeds, first sets, reference counts) meet a rule more than once
				if i+1 < nh {
					x := Ref(names[2+i+r.Intn(nh-i-1)])
					x2, x3 := *x, *x
					switch r.Intn(3) {
					case 0:
						e = Alt(Seq(x, term(), Ref(names[1+i])), &x2)
					case 1:
						e = Alt(Seq(x, term(), &x3), &x2)
					default:
						e = Alt(Seq(x, term()), Seq(&x2, Act()))
					}
				} else {
					e = Alt(Seq(term(), term()), term())
				}
			case 0:
				if r.Intn(3) == 0 {
					// a rule that records tokens of its own even when it matches the empty string
					switch r.Intn(3) {
					case 0:
						e = Seq(Un(KQuery, term()), Act())
					case 1:
						e = Seq(Un(KCapture, Un(KQuery, term())), Act())
					default:
						e = Seq(Act(), Un(KQuery, Seq(term(), Act())))
					}
				} else {
					e = Seq(Un(KCapture, Un(KPlus, term())), Act())
				}
			case 1:
				e = Alt(Seq(term(), Act(), term()), term())
			case 2:
				e = Seq(term(), Un(KQuery, Ref(names[1+r.Intn(nh)])))
			case 3:
				e = Alt(Seq(term(), Ref(names[1+r.Intn(nh)])), Un(KCapture, term()))
			case 4:
				e = Seq(Act(), term(), Un(KStar, term()))
			default:
				switch r.Intn(3) {
				case 0:
					// a leaf rule that is nothing but a capture (no action, no rule call): "Number <- <[0-9]+>"
					e = Un(KCapture, Un(KPlus, term()))
				case 1:
					e = Un(KCapture, term())
				default:
					e = term()
				}
			}
			g.Rules = append(g.Rules, &Rule{Name: names[1+i], E: e})
		}
		// rules referenced exactly ONCE, as the direct operand of ! & ? * +, whose body can fail after it has consumed
		// input and recorded tokens: -inline expands such a rule in place, without the save/restore a called rule has
		if r.Intn(2) == 0 {
			ns := 1 + r.Intn(2)
			for k := 0; k < ns; k++ {
				name := fmt.Sprintf("S%d", k)
				var body *Expr
				switch r.Intn(4) {
				case 0:
					body = Seq(term(), term())
				case 1:
					body = Seq(href(), term())
				case 2:
					body = Seq(Un(KCapture, term()), Act(), term())
				default:
					body = Seq(term(), Un(KNot, term()))
				}
				op := []Kind{KNot, KAnd, KQuery, KStar, KPlus, KNot, KStar}[r.Intn(7)]
				use := Un(op, Ref(name))
				if r.Intn(2) == 0 {
					g.Rules[0].E = Seq(use, g.Rules[0].E)
				} else {
					g.Rules[0].E = Seq(g.Rules[0].E, use, Un(KQuery, term()))
				}
				g.Rules = append(g.Rules, &Rule{Name: name, E: body})
			}
		}
		// make every helper reachable
		used := map[string]bool{}
		g.Walk(func(_ *Rule, e *Expr) {
			if e.K == KRef {
				used[e.Name] = true
			}
		})
		var extra []*Expr
		for i := 0; i < nh; i++ {
			if !used[names[1+i]] {
				extra = append(extra, Ref(names[1+i]))
			}
		}
		if len(extra) > 0 {
			g.Rules[0].E = Seq(g.Rules[0].E, Un(KQuery, &Expr{K: KAlt, Kids: extra}))
		}
		if !g.WellFormed() {
			continue
		}
		g.Number()
		return g
	}
}

// Nesting builds grammars for the tree properties (C05): unit-rule chains (parent and child with equal span),
// zero-width tokens between siblings, many siblings, deep recursion.
func Nesting(r *rand.Rand) (*Grammar, []string) {
	for {
		g := &Grammar{}
		open, close := 'a'+rune(r.Intn(2)), 'x'+rune(r.Intn(2))
		atoms := []*Expr{Lit("é"), Lit("k"), Rng('0', '3'), Lit("😀")}
		atom := atoms[r.Intn(len(atoms))]
		chain := 1 + r.Intn(4)
		// R0 <- E !.  ; E <- U0 ; U0 <- U1 ; ... ; Uk <- open E+ close / Z Atom Z ; Z <- {act} / ''  ; Atom <- <atom>
		g.Rules = append(g.Rules, &Rule{Name: "R0", E: Seq(Ref("E"), Un(KStar, Seq(Lit(","), Ref("E"))), Un(KNot, Dot()))})
		g.Rules = append(g.Rules, &Rule{Name: "E", E: Ref("U0")})
		for i := 0; i < chain; i++ {
			g.Rules = append(g.Rules, &Rule{Name: fmt.Sprintf("U%d", i), E: Ref(fmt.Sprintf("U%d", i+1))})
		}
		var z *Expr
		switch r.Intn(3) {
		case 0:
			z = Act()
		case 1:
			z = Un(KQuery, Lit("_"))
		default:
			z = Seq(Act(), Un(KStar, Lit("_")))
		}
		inner := Alt(Seq(&Expr{K: KLit, Text: []rune{open}}, Un(KPlus, Ref("E")), &Expr{K: KLit, Text: []rune{close}}), Seq(Ref("Z"), Ref("Atom"), Ref("Z")))
		g.Rules = append(g.Rules, &Rule{Name: fmt.Sprintf("U%d", chain), E: inner})
		g.Rules = append(g.Rules, &Rule{Name: "Z", E: z})
		g.Rules = append(g.Rules, &Rule{Name: "Atom", E: Un(KCapture, atom)})
		if !g.WellFormed() {
			continue
		}
		g.Number()
		// inputs: nested to various depths, many siblings
		at := func() string {
			switch atom.K {
			case KLit:
				return string(atom.Text)
			default:
				return string(rune('0' + r.Intn(4)))
			}
		}
		var ins []string
		var build func(d int) string
		build = func(d int) string {
			if d <= 0 || r.Intn(5) == 0 {
				s := at()
				if r.Intn(3) == 0 {
					s = "_" + s
				}
				return s
			}
			n := 1
			if d <= 4 {
				n = 1 + r.Intn(3) // branch only near the leaves: size stays linear in the depth
			}
			s := string(open)
			for i := 0; i < n; i++ {
				s += build(d - 1)
			}
			return s + string(close)
		}
		for _, d := range []int{0, 1, 2, 3, 5, 8, 20, 60} {
			ins = append(ins, build(d))
		}
		s := build(2)
		for i := 0; i < 6; i++ {
			s += "," + build(r.Intn(3))
		}
		ins = append(ins, s)
		deep := ""
		for i := 0; i < 60; i++ {
			deep += string(open)
		}
		deep += at()
		for i := 0; i < 60; i++ {
			deep += string(close)
		}
		ins = append(ins, deep, deep[:len(deep)-1], "", string(open)+string(close))
		return g, ins
	}
}

// BridgingClass: a class whose items overlap so that inserting them merges several intervals: two disjoint
// intervals and a third range that starts inside the first and ends inside the second ([a-ci-mb-j]), in any order.
func BridgingClass(r *rand.Rand, base rune) *Expr {
	a0 := base + rune(r.Intn(3))
	a1 := a0 + 1 + rune(r.Intn(3))
	b0 := a1 + 2 + rune(r.Intn(4))
	b1 := b0 + 2 + rune(r.Intn(4))
	items := []Item{{a0, a1}, {b0, b1}, {a0 + 1, b0 + 1}}
	if r.Intn(2) == 0 {
		c0 := b1 + 2 + rune(r.Intn(3))
		items = append(items, Item{c0, c0 + 1 + rune(r.Intn(3))})
	}
	if r.Intn(2) == 0 { // otherwise the bridging range stays behind the two intervals it bridges
		r.Shuffle(len(items), func(i, j int) { items[i], items[j] = items[j], items[i] })
	}
	return &Expr{K: KClass, Items: items}
}

// clampHi keeps the upper bound of a range a valid code point not below lo (no surrogates, <= U+10FFFF).
func clampHi(lo, hi rune) rune {
	hi = clampRune(hi)
	if lo < 0xD800 && hi >= 0xD800 && hi <= 0xDFFF {
		hi = 0xD7FF
	}
	if hi < lo {
		hi = lo
	}
	return hi
}

// ---------- derivations that pass through a given rule (coverage of real-world grammars) ----------

// Steer precomputes what DeriveVia needs: the cheapest derivation cost of every rule and which rules each rule can reach.
type Steer struct {
	g     *Grammar
	cost  map[string]int
	reach map[string]map[string]bool
}

func NewSteer(g *Grammar) *Steer {
	s := &Steer{g: g, cost: map[string]int{}, reach: map[string]map[string]bool{}}
	const inf = 1 << 20
	for _, r := range g.Rules {
		s.cost[r.Name] = inf
	}
	for changed := true; changed; {
		changed = false
		for _, r := range g.Rules {
			if c := s.exprCost(r.E); c < s.cost[r.Name] {
				s.cost[r.Name] = c
				changed = true
			}
		}
	}
	for _, r := range g.Rules {
		m := map[string]bool{}
		var w func(e *Expr)
		w = func(e *Expr) {
			if e.K == KRef {
				m[e.Name] = true
			}
			for _, k := range e.Kids {
				w(k)
			}
		}
		w(r.E)
		s.reach[r.Name] = m
	}
	for changed := true; changed; {
		changed = false
		for _, r := range g.Rules {
			for x := range s.reach[r.Name] {
				for y := range s.reach[x] {
					if !s.reach[r.Name][y] {
						s.reach[r.Name][y] = true
						changed = true
					}
				}
			}
		}
	}
	return s
}

func (s *Steer) exprCost(e *Expr) int {
	const inf = 1 << 20
	switch e.K {
	case KSeq:
		t := 0
		for _, k := range e.Kids {
			t += s.exprCost(k)
			if t >= inf {
				return inf
			}
		}
		return t
	case KAlt:
		m := inf
		for _, k := range e.Kids {
			if c := s.exprCost(k); c < m {
				m = c
			}
		}
		return m
	case KQuery, KStar, KAnd, KNot, KAction, KNil, KPred, KState:
		return 0
	case KPlus, KCapture:
		return s.exprCost(e.Kids[0])
	case KLit:
		return len(e.Text)
	case KClass, KDot:
		return 1
	case KRef:
		if c, ok := s.cost[e.Name]; ok {
			return c
		}
		return 0
	}
	return 0
}

func (s *Steer) canReach(e *Expr, target string) bool {
	if e.K == KRef && (e.Name == target || s.reach[e.Name][target]) {
		return true
	}
	if e.K == KAnd || e.K == KNot {
		return false // lookahead consumes nothing: steering through it does not put the target into the text
	}
	for _, k := range e.Kids {
		if s.canReach(k, target) {
			return true
		}
	}
	return false
}

// DeriveVia derives an input from start whose derivation passes through rule target: choices are steered towards the
// target until it has been expanded, made at random inside the target, and made as cheaply as possible elsewhere.
func (s *Steer) DeriveVia(r *rand.Rand, start, target string, alphabet []rune) []rune {
	var out []rune
	hit := false
	budget := 4000
	var walk func(e *Expr, free int)
	walk = func(e *Expr, free int) {
		budget--
		if budget < 0 {
			return
		}
		switch e.K {
		case KSeq:
			for _, k := range e.Kids {
				walk(k, free)
			}
		case KAlt:
			if !hit {
				var c []*Expr
				for _, k := range e.Kids {
					if s.canReach(k, target) {
						c = append(c, k)
					}
				}
				if len(c) > 0 {
					walk(c[r.Intn(len(c))], free)
					return
				}
			}
			if free > 0 {
				walk(e.Kids[r.Intn(len(e.Kids))], free-1)
				return
			}
			best, bc := e.Kids[0], s.exprCost(e.Kids[0])
			for _, k := range e.Kids[1:] {
				if c := s.exprCost(k); c < bc {
					best, bc = k, c
				}
			}
			walk(best, 0)
		case KQuery, KStar:
			if (!hit && s.canReach(e.Kids[0], target)) || (free > 0 && r.Intn(2) == 0) {
				walk(e.Kids[0], free-1)
			}
		case KPlus:
			walk(e.Kids[0], free)
			if free > 0 && r.Intn(2) == 0 {
				walk(e.Kids[0], free-1)
			}
		case KCapture:
			walk(e.Kids[0], free)
		case KLit:
			for _, c := range e.Text {
				if e.CI && isLetter(c) && r.Intn(2) == 0 {
					c ^= 0x20
				}
				out = append(out, c)
			}
		case KClass:
			if e.Neg {
				for tries := 0; tries < 20; tries++ {
					c := alphabet[r.Intn(len(alphabet))]
					ok := true
					for _, it := range e.Items {
						if MatchItem(it, e.CI, c) {
							ok = false
						}
					}
					if ok {
						out = append(out, c)
						return
					}
				}
				out = append(out, 'q')
				return
			}
			it := e.Items[r.Intn(len(e.Items))]
			out = append(out, it.Lo+rune(r.Intn(int(it.Hi-it.Lo)+1)))
		case KDot:
			out = append(out, alphabet[r.Intn(len(alphabet))])
		case KRef:
			rr := s.g.Rule(e.Name)
			if rr == nil {
				return
			}
			if e.Name == target && !hit {
				hit = true
				walk(rr.E, 6) // inside the target: a few random choices
				return
			}
			walk(rr.E, free)
		}
	}
	if rr := s.g.Rule(start); rr != nil {
		if start == target {
			hit = true
			walk(rr.E, 6)
		} else {
			walk(rr.E, 0)
		}
	}
	return out
}

// ---------- recursion through the left edge of alternatives ----------

// Recursive builds grammars whose rules call each other in cycles: an alternative of a choice may BEGIN with a
// reference to a rule that is still being expanded further up (legal as long as that rule consumed something on the
// way down), rules are chained through their left edges (Y <- Z X), and every choice mixes such alternatives with
// terminals of different first-set sizes. Any analysis that walks the rule graph depth-first and meets a rule that is
// still "in progress" (the first-set analysis of -switch, the reference counting of -inline, the left-recursion
// check) has to get these right; tree-shaped grammars never exercise that. Returns only well-formed grammars in
// which every rule has a finite derivation.
func Recursive(r *rand.Rand) *Grammar {
	letters := []rune("abcdefghjkmpqwz")
	for {
		n := 4 + r.Intn(4)
		names := []string{"R0"}
		for i := 1; i <= n; i++ {
			names = append(names, fmt.Sprintf("N%d", i))
		}
		ch := func() rune { return letters[r.Intn(len(letters))] }
		term := func() *Expr {
			switch r.Intn(7) {
			case 0:
				a := ch()
				return Rng(a, a+rune(1+r.Intn(9)))
			case 1:
				return Cls(Item{ch(), ch()}.norm(), Item{'0', '0' + rune(r.Intn(10))})
			case 2:
				return &Expr{K: KLit, Text: []rune{ch(), ch()}}
			default:
				return &Expr{K: KLit, Text: []rune{ch()}}
			}
		}
		anyRef := func() *Expr { return Ref(names[1+r.Intn(n)]) }
		g := &Grammar{}
		g.Rules = append(g.Rules, &Rule{Name: "R0", E: Seq(Ref("N1"), Un(KNot, Dot()))})
		for i := 1; i <= n; i++ {
			next := anyRef()
			if i < n {
				next = Ref(names[i+1]) // keeps every rule reachable
			}
			var e *Expr
			switch pick(r, 3, 2, 4, 1) {
			case 0: // consume, then call
				kids := []*Expr{term(), next}
				if r.Intn(2) == 0 {
					kids = append(kids, anyRef())
				}
				if r.Intn(3) == 0 {
					kids = append(kids, term())
				}
				e = Seq(kids...)
			case 1: // chained through the left edge
				if r.Intn(2) == 0 {
					e = Seq(next, anyRef())
				} else {
					e = Seq(anyRef(), next)
				}
			case 2: // choice: alternatives beginning with a rule (possibly one in progress), and terminals
				k := 2 + r.Intn(4)
				var alts []*Expr
				for j := 0; j < k; j++ {
					switch r.Intn(5) {
					case 0, 1:
						alts = append(alts, Seq(anyRef(), term()))
					case 2:
						alts = append(alts, Seq(term(), anyRef()))
					default:
						alts = append(alts, term())
					}
				}
				at := r.Intn(len(alts))
				if r.Intn(2) == 0 {
					alts[at] = Seq(next, term())
				} else {
					alts[at] = Seq(term(), next)
				}
				e = Alt(alts...)
			default:
				e = next
			}
			if i == n && e.K != KAlt {
				e = Alt(e, term(), term())
			}
			g.Rules = append(g.Rules, &Rule{Name: names[i], E: e})
		}
		if !g.WellFormed() {
			continue
		}
		st := NewSteer(g)
		ok := true
		for _, rl := range g.Rules {
			if st.cost[rl.Name] >= 1<<20 || st.cost[rl.Name] > 60 {
				ok = false
			}
		}
		if !ok {
			continue
		}
		g.Number()
		return g
	}
}

func (i Item) norm() Item {
	if i.Lo > i.Hi {
		return Item{i.Hi, i.Lo}
	}
	return i
}

// DeriveFree derives an input from start making up to `free` random choices along every path and the cheapest choice
// after that, so that derivations of recursive grammars end (and are usually accepted).
func (s *Steer) DeriveFree(r *rand.Rand, start string, free int, alphabet []rune) []rune {
	var out []rune
	budget := 3000
	var walk func(e *Expr, free int)
	walk = func(e *Expr, free int) {
		budget--
		if budget < 0 {
			return
		}
		switch e.K {
		case KSeq:
			for _, k := range e.Kids {
				walk(k, free)
			}
		case KAlt:
			if free > 0 {
				walk(e.Kids[r.Intn(len(e.Kids))], free-1)
				return
			}
			best, bc := e.Kids[0], s.exprCost(e.Kids[0])
			for _, k := range e.Kids[1:] {
				if c := s.exprCost(k); c < bc {
					best, bc = k, c
				}
			}
			walk(best, 0)
		case KQuery, KStar:
			if free > 0 && r.Intn(2) == 0 {
				walk(e.Kids[0], free-1)
			}
		case KPlus:
			walk(e.Kids[0], free)
			if free > 0 && r.Intn(2) == 0 {
				walk(e.Kids[0], free-1)
			}
		case KCapture:
			walk(e.Kids[0], free)
		case KLit:
			out = append(out, e.Text...)
		case KClass:
			if e.Neg {
				out = append(out, alphabet[r.Intn(len(alphabet))])
				return
			}
			it := e.Items[r.Intn(len(e.Items))]
			out = append(out, it.Lo+rune(r.Intn(int(it.Hi-it.Lo)+1)))
		case KDot:
			out = append(out, alphabet[r.Intn(len(alphabet))])
		case KRef:
			if rr := s.g.Rule(e.Name); rr != nil {
				walk(rr.E, free)
			}
		}
	}
	if rr := s.g.Rule(start); rr != nil {
		walk(rr.E, free)
	}
	return out
}

// ---------- operator tables: alternatives that are prefixes of one another ----------

// Operators builds the token rule of a typical lexer: one choice of five to nine alternatives in which families of
// literals are prefixes of one another ('<<=' / '<<' / '<'), written longest first as PEG requires — usually, sometimes
// deliberately not — and mixed with alternatives whose first characters are unique; every alternative ends in its own
// action (some also capture), so that which alternative was taken is visible in the action trace and the tokens. The
// ORDER of overlapping alternatives is the meaning of such a choice; an optimiser that regroups alternatives by first
// character has to keep it.
func Operators(r *rand.Rand) *Grammar {
	for {
		pool := []rune("<>=+-*&|!.:")
		r.Shuffle(len(pool), func(i, j int) { pool[i], pool[j] = pool[j], pool[i] })
		nf := 1 + r.Intn(2)
		var alts []*Expr
		wrap := func(e *Expr) *Expr {
			switch r.Intn(4) {
			case 0:
				return Seq(Un(KCapture, e), Act())
			case 1:
				return Seq(Act(), e, Act())
			default:
				return Seq(e, Act())
			}
		}
		pi := 0
		for f := 0; f < nf; f++ {
			base := pool[pi]
			pi++
			ext := pool[pi]
			pi++
			// family: base ext ext', base ext, base  (2-4 members)
			members := [][]rune{{base, base, ext}, {base, base}, {base, ext}, {base}}
			if r.Intn(2) == 0 {
				members = [][]rune{{base, ext, ext}, {base, ext}, {base}}
			}
			k := 2 + r.Intn(len(members)-1)
			members = members[len(members)-k:]
			if r.Intn(5) == 0 {
				// not longest-first: the shorter one shadows the longer one, and must keep doing so
				members[0], members[len(members)-1] = members[len(members)-1], members[0]
			}
			for _, m := range members {
				alts = append(alts, wrap(&Expr{K: KLit, Text: m}))
			}
		}
		// alternatives with unique first characters, at random places (the family order is kept)
		ns := 3 + r.Intn(3)
		for s := 0; s < ns && pi < len(pool); s++ {
			var e *Expr
			switch r.Intn(4) {
			case 0:
				e = Un(KPlus, Rng('0', '9'))
				if s > 0 {
					e = Un(KPlus, Rng('a', 'f'))
				}
			default:
				e = &Expr{K: KLit, Text: []rune{pool[pi]}}
				pi++
			}
			at := r.Intn(len(alts) + 1)
			alts = append(alts[:at], append([]*Expr{wrap(e)}, alts[at:]...)...)
		}
		// (two alternatives may both be [0-9]+ / [a-f]+ duplicates: fine, the second is dead)
		g := &Grammar{}
		sp := Un(KStar, Lit(" "))
		g.Rules = append(g.Rules, &Rule{Name: "R0", E: Seq(Un(KPlus, Seq(Ref("Op"), sp)), Un(KNot, Dot()))})
		g.Rules = append(g.Rules, &Rule{Name: "Op", E: Alt(alts...)})
		if !g.WellFormed() {
			continue
		}
		g.Number()
		return g
	}
}
