package gram

import "sort"

// Nullable computes, per rule, whether it may succeed without consuming input (syntactic least fixed point;
// predicates and lookahead count as "may succeed without consuming").
func (g *Grammar) Nullable() map[string]bool {
	nul := map[string]bool{}
	for changed := true; changed; {
		changed = false
		for _, r := range g.Rules {
			if !nul[r.Name] && ExprNullable(r.E, nul) {
				nul[r.Name] = true
				changed = true
			}
		}
	}
	return nul
}

func ExprNullable(e *Expr, nul map[string]bool) bool {
	switch e.K {
	case KSeq:
		for _, k := range e.Kids {
			if !ExprNullable(k, nul) {
				return false
			}
		}
		return true
	case KAlt:
		for _, k := range e.Kids {
			if ExprNullable(k, nul) {
				return true
			}
		}
		return false
	case KQuery, KStar, KAnd, KNot, KAction, KNil, KPred, KState:
		return true
	case KPlus, KCapture:
		return ExprNullable(e.Kids[0], nul)
	case KRef:
		return nul[e.Name]
	case KLit:
		return len(e.Text) == 0
	}
	return false
}

// LeftRefs: names that can be invoked at the same input offset at which e itself is entered (through any operator).
func LeftRefs(e *Expr, nul map[string]bool, out map[string]bool) {
	switch e.K {
	case KSeq:
		for _, k := range e.Kids {
			LeftRefs(k, nul, out)
			if !ExprNullable(k, nul) {
				return
			}
		}
	case KAlt:
		for _, k := range e.Kids {
			LeftRefs(k, nul, out)
		}
	case KQuery, KStar, KPlus, KAnd, KNot, KCapture:
		LeftRefs(e.Kids[0], nul, out)
	case KRef:
		out[e.Name] = true
	}
}

// Diagnostics is the ground truth for property C15.
type Diagnostics struct {
	Undefined []string // referenced names without a definition
	Unused    []string // defined rules not reachable from the first rule
	LeftRec   []string // rules that can re-enter themselves without consuming input
	Duplicate []string // names defined more than once
}

func (g *Grammar) Diagnose() Diagnostics {
	var d Diagnostics
	def := map[string]*Rule{}
	dup := map[string]bool{}
	for _, r := range g.Rules {
		if _, ok := def[r.Name]; ok {
			dup[r.Name] = true
			continue
		}
		def[r.Name] = r
	}
	for n := range dup {
		d.Duplicate = append(d.Duplicate, n)
	}
	undef := map[string]bool{}
	g.Walk(func(_ *Rule, e *Expr) {
		if e.K == KRef && def[e.Name] == nil {
			undef[e.Name] = true
		}
	})
	for n := range undef {
		d.Undefined = append(d.Undefined, n)
	}
	// reachability from the first rule
	reach := map[string]bool{}
	var rr func(e *Expr)
	rr = func(e *Expr) {
		if e.K == KRef && !reach[e.Name] {
			reach[e.Name] = true
			if r := def[e.Name]; r != nil {
				rr(r.E)
			}
		}
		for _, k := range e.Kids {
			rr(k)
		}
	}
	if len(g.Rules) > 0 {
		reach[g.Rules[0].Name] = true
		rr(g.Rules[0].E)
	}
	for _, r := range g.Rules {
		if !reach[r.Name] && def[r.Name] == r {
			d.Unused = append(d.Unused, r.Name)
		}
	}
	// left recursion: cycle in the left-call graph (undefined names are nullable stubs without calls)
	nul := g.Nullable()
	for n := range undef {
		nul[n] = true
	}
	// nullable must be recomputed with the stubs in place
	for changed := true; changed; {
		changed = false
		for _, r := range g.Rules {
			if def[r.Name] == r && !nul[r.Name] && ExprNullable(r.E, nul) {
				nul[r.Name] = true
				changed = true
			}
		}
	}
	left := map[string]map[string]bool{}
	for n, r := range def {
		left[n] = map[string]bool{}
		LeftRefs(r.E, nul, left[n])
	}
	for n := range def {
		seen := map[string]bool{}
		stack := []string{}
		for m := range left[n] {
			stack = append(stack, m)
		}
		for len(stack) > 0 {
			m := stack[len(stack)-1]
			stack = stack[:len(stack)-1]
			if seen[m] {
				continue
			}
			seen[m] = true
			for k := range left[m] {
				stack = append(stack, k)
			}
		}
		if seen[n] {
			d.LeftRec = append(d.LeftRec, n)
		}
	}
	sort.Strings(d.Undefined)
	sort.Strings(d.Unused)
	sort.Strings(d.LeftRec)
	sort.Strings(d.Duplicate)
	return d
}

// WellFormed: every name defined once and reachable, no left recursion through any operator, and no * or +
// over an operand that may succeed without consuming. Only such grammars have PEG semantics (C01's precondition).
func (g *Grammar) WellFormed() bool {
	if len(g.Rules) == 0 {
		return false
	}
	d := g.Diagnose()
	if len(d.Undefined)+len(d.Unused)+len(d.LeftRec)+len(d.Duplicate) > 0 {
		return false
	}
	nul := g.Nullable()
	ok := true
	g.Walk(func(_ *Rule, e *Expr) {
		if (e.K == KStar || e.K == KPlus) && ExprNullable(e.Kids[0], nul) {
			ok = false
		}
		if e.K == KLit && len(e.Text) == 0 {
			ok = false
		}
		if e.K == KClass && len(e.Items) == 0 {
			ok = false
		}
		// every rune must be a code point the .peg text can carry (a generator slip here would make the printed
		// text and the AST disagree and raise a false alarm)
		valid := func(c rune) bool { return c >= 0 && c <= 0x10FFFF && !(c >= 0xD800 && c <= 0xDFFF) }
		for _, c := range e.Text {
			ok = ok && valid(c)
		}
		for _, it := range e.Items {
			ok = ok && valid(it.Lo) && valid(it.Hi) && it.Lo <= it.Hi
		}
	})
	return ok
}

// RefCounts: how often each rule is referenced from reachable rules, counting like peg's -inline does
// (each textual reference in a reachable rule counts; the first rule gets one for being the start).
func (g *Grammar) RefCounts() map[string]int {
	c := map[string]int{}
	if len(g.Rules) == 0 {
		return c
	}
	c[g.Rules[0].Name]++
	g.Walk(func(_ *Rule, e *Expr) {
		if e.K == KRef {
			c[e.Name]++
		}
	})
	return c
}

// Runes returns the set of runes that occur in terminals of the grammar, plus their neighbours: the
// "interesting" input alphabet (first-set boundaries for the -switch optimiser).
func (g *Grammar) Runes() []rune {
	m := map[rune]bool{}
	add := func(c rune) {
		for _, d := range []rune{c - 1, c, c + 1} {
			if d >= 0 && d <= 0x10FFFF && !(d >= 0xD800 && d <= 0xDFFF) {
				m[d] = true
			}
		}
	}
	g.Walk(func(_ *Rule, e *Expr) {
		switch e.K {
		case KLit:
			for _, c := range e.Text {
				add(c)
				if e.CI && isLetter(c) {
					add(c ^ 0x20)
				}
			}
		case KClass:
			for _, it := range e.Items {
				add(it.Lo)
				add(it.Hi)
				if e.CI && isLetter(it.Lo) {
					add(it.Lo ^ 0x20)
					add(it.Hi ^ 0x20)
				}
			}
		}
	})
	out := make([]rune, 0, len(m))
	for c := range m {
		out = append(out, c)
	}
	sort.Slice(out, func(i, j int) bool { return out[i] < out[j] })
	return out
}
