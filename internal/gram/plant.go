package gram

import (
	"fmt"
	"math/rand"
)

// Planted builds a grammar with diagnostics planted on purpose (property C15). The ground truth is NOT taken from
// the planting but recomputed by Diagnose(); the planting only steers coverage and is returned as context tags.
//
// The grammar starts from a clean, non-recursive helper library; then, chosen at random: undefined names (used
// from reachable and from unreachable rules), unreachable rules / unreachable (consuming) cycles / rules
// reachable only from unreachable ones, and left-recursive cycles of length 1-4 whose recursive reference sits
// under each operator behind a prefix that is nullable (positive) or consuming (negative). Prefixes come from a
// palette on which "may succeed without consuming" has one answer syntactically and semantically.
func Planted(r *rand.Rand) (*Grammar, []string) {
	var tags []string
	g := &Grammar{}
	add := func(name string, e *Expr) { g.Rules = append(g.Rules, &Rule{Name: name, E: e}) }
	// helper library
	add("R0", nil)
	add("T0", Lit("a"))
	add("T1", Seq(Rng('b', 'c'), Un(KQuery, Ref("T0"))))
	add("T2", Alt(Seq(Lit("d"), Ref("T1")), Lit("e")))
	add("N0", Un(KQuery, Lit("n")))
	top := []*Expr{Ref("T0"), Ref("T1"), Ref("T2"), Ref("N0")}

	nullablePrefix := func() (*Expr, string) {
		switch r.Intn(11) {
		case 0:
			return nil, "none"
		case 1:
			return Ref("N0"), "nullable-rule"
		case 2:
			return Un(KQuery, Lit("a")), "query"
		case 3:
			return Un(KStar, Lit("a")), "star"
		case 4:
			return Un(KAnd, Lit("a")), "and"
		case 5:
			return Un(KNot, Lit("a")), "not"
		case 6:
			return Act(), "action"
		case 7:
			return Pred(PTrue, 0), "predicate"
		case 8:
			return Nil(), "empty-group"
		case 9:
			return Un(KCapture, Un(KQuery, Lit("a"))), "capture-of-nullable"
		default:
			return Seq(Un(KQuery, Lit("a")), Un(KNot, Lit("z"))), "two-nullables"
		}
	}
	consumingPrefix := func() (*Expr, string) {
		switch r.Intn(6) {
		case 0:
			return Lit("a"), "char"
		case 1:
			return Ref("T0"), "consuming-rule"
		case 2:
			return Rng('a', 'c'), "range"
		case 3:
			return Dot(), "dot"
		case 4:
			return Un(KPlus, Lit("a")), "plus"
		default:
			return Seq(Un(KQuery, Lit("q")), Lit("a")), "nullable-then-char"
		}
	}
	context := func(x *Expr) (*Expr, string) {
		switch r.Intn(11) {
		default:
			return x, "direct"
		case 1:
			return Un(KQuery, x), "under-query"
		case 2:
			return Un(KStar, x), "under-star"
		case 3:
			return Un(KPlus, x), "under-plus"
		case 4:
			return Un(KAnd, x), "under-and"
		case 5:
			return Un(KNot, x), "under-not"
		case 6:
			return Un(KCapture, x), "under-capture"
		case 7:
			return Alt(Seq(Un(KNot, Dot())), Seq(x, Lit("x"))), "alt-after-nonconsuming-alt"
		case 8:
			return Alt(Lit("a"), Seq(x, Lit("x"))), "alt-after-consuming-alt"
		case 9:
			return Alt(Seq(x, Lit("x")), Lit("a")), "first-alternative"
		case 10:
			return Seq(Un(KQuery, Seq(Lit("p"), Lit("q"))), x), "after-optional-group"
		}
	}

	// rules referenced only under one operator: reachability must look through every operator
	if r.Intn(3) == 0 {
		ops := []struct {
			k   Kind
			tag string
		}{{KAnd, "and"}, {KNot, "not"}, {KQuery, "query"}, {KStar, "star"}, {KPlus, "plus"}, {KCapture, "capture"}}
		o := ops[r.Intn(len(ops))]
		name := "Only_" + o.tag
		add(name, Seq(Lit("o"), Un(KQuery, Ref("Deep_"+o.tag))))
		add("Deep_"+o.tag, Lit("p"))
		use := Un(o.k, Ref(name))
		if o.k == KAnd || o.k == KNot {
			top = append(top, Seq(use, Lit("o")))
		} else {
			top = append(top, Seq(Lit("u"), use))
		}
		tags = append(tags, "reachable-only-under:"+o.tag)
	}
	// undefined names
	nu := 0
	if r.Intn(3) == 0 {
		nu = 1 + r.Intn(2)
	}
	for i := 0; i < nu; i++ {
		top = append(top, Ref(fmt.Sprintf("Undef%d", i)))
		tags = append(tags, "undefined:reachable")
	}
	// unreachable rules
	if r.Intn(3) == 0 {
		switch r.Intn(7) {
		case 4:
			// the only '.', the only capture or the only predicate of the grammar sits in an unused rule
			add("X6", Seq(Dot(), Lit("x"), Un(KNot, Dot())))
			tags = append(tags, "unused:single", "unused:only-dot")
		case 5:
			add("X7", Seq(Un(KCapture, Lit("a")), Act()))
			tags = append(tags, "unused:single", "unused:only-capture", "unused:with-action")
		case 6:
			add("X8", Seq(Pred(PTrue, 0), Rng('x', 'z')))
			tags = append(tags, "unused:single", "unused:only-predicate")
		case 0:
			add("X0", Seq(Ref("T0"), Lit("x")))
			tags = append(tags, "unused:single")
		case 1:
			add("X1", Seq(Lit("a"), Un(KQuery, Ref("X2"))))
			add("X2", Seq(Lit("b"), Ref("X1")))
			tags = append(tags, "unused:consuming-cycle")
		case 2:
			add("X3", Seq(Lit("a"), Ref("X4")))
			add("X4", Seq(Lit("y"), Act()))
			tags = append(tags, "unused:reachable-only-from-unused", "unused:with-action")
		case 3:
			add("X5", Seq(Lit("a"), Ref("UndefFromUnused")))
			tags = append(tags, "unused:single", "undefined:from-unused-rule")
		}
	}
	// left-recursive (or nearly) cycles
	nc := 0
	switch r.Intn(4) {
	case 0:
	case 1, 2:
		nc = 1
	default:
		nc = 2
	}
	for c := 0; c < nc; c++ {
		length := 1 + r.Intn(4)
		positive := r.Intn(4) != 0
		names := make([]string, length)
		for i := range names {
			names[i] = fmt.Sprintf("L%d_%d", c, i)
		}
		breakAt := -1
		if !positive {
			breakAt = r.Intn(length) // this link gets a consuming prefix: no left recursion
		}
		for i := range names {
			next := Ref(names[(i+1)%length])
			ctx, ctag := context(next)
			var pre *Expr
			var ptag string
			if i == breakAt {
				pre, ptag = consumingPrefix()
			} else {
				pre, ptag = nullablePrefix()
			}
			kids := []*Expr{}
			if pre != nil {
				kids = append(kids, pre)
			}
			kids = append(kids, ctx)
			// suffix only references helper rules
			if r.Intn(2) == 0 {
				kids = append(kids, Ref("T1"))
			}
			body := &Expr{K: KSeq, Kids: kids}
			// a base case so that the rule is not trivially hopeless
			add(names[i], Alt(body, Lit("t")))
			if positive {
				tags = append(tags, "leftrec:"+ctag, "leftrec-prefix:"+ptag, fmt.Sprintf("leftrec-cycle-length:%d", length))
			} else if i == breakAt {
				tags = append(tags, "no-leftrec:consuming-prefix:"+ptag, "no-leftrec:"+ctag)
			}
		}
		if r.Intn(5) != 0 {
			top = append(top, Seq(Lit("l"), Ref(names[0])))
		} else {
			tags = append(tags, "cycle-unreachable")
		}
	}
	r.Shuffle(len(top), func(i, j int) { top[i], top[j] = top[j], top[i] })
	g.Rules[0].E = &Expr{K: KAlt, Kids: top}
	// shuffle the non-first rules: diagnostics must not depend on definition order
	rest := g.Rules[1:]
	r.Shuffle(len(rest), func(i, j int) { rest[i], rest[j] = rest[j], rest[i] })
	// names: a third of the grammars spell some of their rules (defined or not) like the things peg makes up itself —
	// a diagnostic is about the grammar's names whatever they look like ("Action" is a rule of peg.peg itself; the
	// synthetic rules are called Action<number> and PegText, which no name below equals)
	if r.Intn(3) == 0 {
		pool := []string{"Action", "Actions", "ActionX", "Action_1", "Peg", "Text", "PegTex", "PegText2", "Rule", "Memo", "Tokens", "Buffer", "Init", "_x", "A", "a1"}
		r.Shuffle(len(pool), func(i, j int) { pool[i], pool[j] = pool[j], pool[i] })
		var olds []string
		seen := map[string]bool{"R0": true}
		g.Walk(func(_ *Rule, e *Expr) {
			if e.K == KRef && !seen[e.Name] {
				seen[e.Name] = true
				olds = append(olds, e.Name)
			}
		})
		for _, rl := range g.Rules {
			if !seen[rl.Name] {
				seen[rl.Name] = true
				olds = append(olds, rl.Name)
			}
		}
		r.Shuffle(len(olds), func(i, j int) { olds[i], olds[j] = olds[j], olds[i] })
		ren := map[string]string{}
		for k := 0; k < 1+r.Intn(4) && k < len(olds) && k < len(pool); k++ {
			ren[olds[k]] = pool[k]
		}
		for _, rl := range g.Rules {
			if n, ok := ren[rl.Name]; ok {
				rl.Name = n
			}
		}
		g.Walk(func(_ *Rule, e *Expr) {
			if n, ok := ren[e.Name]; ok && e.K == KRef {
				e.Name = n
			}
		})
		tags = append(tags, "names-like-peg's-own")
	}
	g.Number()
	if d := g.Diagnose(); len(d.Undefined)+len(d.Unused)+len(d.LeftRec)+len(d.Duplicate) == 0 {
		tags = append(tags, "clean")
	}
	return g, tags
}
