// Package pegsyntax: a hand-written reader of the .peg language, independent of pointlander/peg's generated front
// end (peg.peg.go) and of its tree builder. It follows the documentation (docs/peg-file-syntax.md) and, where the
// docs only show examples, the concrete syntax laid down in peg.peg lines 22-129 read as a PEG (ordered choice, no
// backtracking into a committed alternative). It produces a plain tree (type Node) that states what each
// construct MEANS:
//
//	'abc'      sequence of the characters a b c (one character: just that character); ” is the empty match
//	"aB"       like 'aB' but every ASCII letter is the choice lower / upper
//	[a-cx]     choice of the items; an item is a character or a range lo-hi; [] matches nothing
//	[^...]     !(items) followed by any character
//	[[a-c]]    like [...] but letters / letter ranges denote both cases
//	.  e? e* e+ &e !e <e> (e) {action} &{predicate} !{state change}  e1 e2  e1 / e2  trailing "/" = empty alternative
//
// Monitor C10 compares this tree, node by node, with the tree the real front end builds.
package pegsyntax

import (
	"fmt"
	"strings"
)

type Node struct {
	T    string // Rule Name Dot Character Range Predicate StateChange Action Alternate Sequence PeekFor PeekNot Query Star Plus Push Nil
	S    string
	Kids []*Node
}

type Import struct{ Alias, Path string }

type File struct {
	Header  []string // header comments and spaces, in order: "c:<text>" or "s:<text>"
	Package string
	Imports []Import
	Type    string
	State   string
	Rules   []*Node // T=="Rule", S=name, one kid
}

type reader struct {
	in  []rune
	pos int
	err string
	far int
}

type SyntaxError struct {
	Offset int
	Msg    string
}

func (e *SyntaxError) Error() string {
	return fmt.Sprintf("syntax error at rune %d: %s", e.Offset, e.Msg)
}

// Parse reads a complete grammar file.
func Parse(text string) (f *File, err error) {
	r := &reader{in: []rune(text)}
	defer func() {
		if x := recover(); x != nil {
			if se, ok := x.(*SyntaxError); ok {
				f, err = nil, se
				return
			}
			panic(x)
		}
	}()
	f = r.grammar()
	return f, nil
}

func (r *reader) fail(msg string) {
	if r.pos > r.far {
		r.far = r.pos
	}
	panic(&SyntaxError{r.far, msg})
}

func (r *reader) eof() bool { return r.pos >= len(r.in) }
func (r *reader) peek() rune {
	if r.eof() {
		return -1
	}
	return r.in[r.pos]
}
func (r *reader) has(s string) bool {
	rs := []rune(s)
	if r.pos+len(rs) > len(r.in) {
		return false
	}
	for i, c := range rs {
		if r.in[r.pos+i] != c {
			return false
		}
	}
	return true
}
func (r *reader) lit(s string) bool {
	if r.has(s) {
		r.pos += len([]rune(s))
		return true
	}
	return false
}

// litCI matches s case-insensitively for ASCII letters (double-quoted literals in peg.peg such as "\\a", "0x").
func (r *reader) litCI(s string) bool {
	rs := []rune(s)
	if r.pos+len(rs) > len(r.in) {
		return false
	}
	for i, c := range rs {
		d := r.in[r.pos+i]
		if d != c && !(isLetter(c) && (d == c^0x20)) {
			return false
		}
	}
	r.pos += len(rs)
	return true
}

func isLetter(c rune) bool { return (c >= 'a' && c <= 'z') || (c >= 'A' && c <= 'Z') }

// EndOfLine <- '\r\n' / '\n' / '\r'
func (r *reader) eol() bool { return r.lit("\r\n") || r.lit("\n") || r.lit("\r") }

// Space <- ' ' / '\t' / EndOfLine
func (r *reader) space() bool { return r.lit(" ") || r.lit("\t") || r.eol() }

// Comment <- ('#' / '//') (!EndOfLine .)* EndOfLine
func (r *reader) comment() (string, bool) {
	save := r.pos
	if !(r.lit("#") || r.lit("//")) {
		return "", false
	}
	start := r.pos
	for !r.eof() && !r.has("\n") && !r.has("\r") {
		r.pos++
	}
	text := string(r.in[start:r.pos])
	if !r.eol() { // a comment needs its end of line
		r.pos = save
		return "", false
	}
	return text, true
}

// Spacing <- (Space / Comment)*
func (r *reader) spacing() {
	for {
		if r.space() {
			continue
		}
		if _, ok := r.comment(); ok {
			continue
		}
		return
	}
}

func (r *reader) mustSpacing() bool {
	p := r.pos
	r.spacing()
	return r.pos > p
}

func identStart(c rune) bool { return isLetter(c) || c == '_' }
func identCont(c rune) bool  { return identStart(c) || (c >= '0' && c <= '9') }

// Identifier <- < IdentStart IdentCont* > Spacing
func (r *reader) identifier() (string, bool) {
	if r.eof() || !identStart(r.peek()) {
		return "", false
	}
	start := r.pos
	for !r.eof() && identCont(r.peek()) {
		r.pos++
	}
	s := string(r.in[start:r.pos])
	r.spacing()
	return s, true
}

// Action <- '{' < ActionBody* > '}' Spacing ; ActionBody <- [^{}] / '{' ActionBody* '}'
func (r *reader) action() (string, bool) {
	save := r.pos
	if !r.lit("{") {
		return "", false
	}
	start := r.pos
	var body func() bool
	body = func() bool {
		for !r.eof() {
			switch r.peek() {
			case '{':
				p := r.pos
				r.pos++
				if !body() || !r.lit("}") {
					r.pos = p
					return true // '{' ActionBody* '}' failed: the enclosing ActionBody* stops here
				}
			case '}':
				return true
			default:
				r.pos++
			}
		}
		return true
	}
	body()
	end := r.pos
	if !r.lit("}") {
		r.pos = save
		return "", false
	}
	text := string(r.in[start:end])
	r.spacing()
	return text, true
}

func (r *reader) grammar() *File {
	f := &File{}
	// Header <- (HeaderComment / <Space+> )*  ; HeaderComment <- ('#' / '//') <(!EndOfLine .)*> EndOfLine
	for {
		if c, ok := r.comment(); ok {
			f.Header = append(f.Header, "c:"+c)
			continue
		}
		p := r.pos
		for r.space() {
		}
		if r.pos > p {
			f.Header = append(f.Header, "s:"+string(r.in[p:r.pos]))
			continue
		}
		break
	}
	if !r.lit("package") {
		r.fail("'package' expected")
	}
	if !r.mustSpacing() {
		r.fail("space expected after 'package'")
	}
	id, ok := r.identifier()
	if !ok {
		r.fail("package name expected")
	}
	f.Package = id
	// Import* ; Import <- 'import' Spacing (MultiImport / SingleImport) Spacing
	for {
		save := r.pos
		if !r.lit("import") {
			break
		}
		r.spacing()
		if r.lit("(") { // MultiImport <- '(' Spacing (ImportName '\n' Spacing)* Spacing ')'
			r.spacing()
			var got []Import
			for {
				p := r.pos
				im, ok := r.importName()
				if !ok || !r.lit("\n") {
					r.pos = p
					break
				}
				got = append(got, im)
				r.spacing()
			}
			r.spacing()
			if !r.lit(")") {
				// MultiImport failed; SingleImport cannot start with '(' either
				r.pos = save
				r.fail("malformed import group")
			}
			f.Imports = append(f.Imports, got...)
		} else {
			im, ok := r.importName()
			if !ok {
				r.pos = save
				r.fail("malformed import")
			}
			f.Imports = append(f.Imports, im)
		}
		r.spacing()
	}
	if !r.lit("type") {
		r.fail("'type' expected")
	}
	if !r.mustSpacing() {
		r.fail("space expected after 'type'")
	}
	tn, ok := r.identifier()
	if !ok {
		r.fail("parser type name expected")
	}
	f.Type = tn
	if !r.lit("Peg") {
		r.fail("'Peg' expected")
	}
	r.spacing()
	st, ok := r.action()
	if !ok {
		r.fail("parser state block expected")
	}
	f.State = st
	// Definition+ EndOfFile
	n := 0
	for {
		d, ok := r.definition()
		if !ok {
			break
		}
		f.Rules = append(f.Rules, d)
		n++
	}
	if n == 0 {
		r.fail("rule definition expected")
	}
	if !r.eof() {
		r.fail("definition or end of file expected")
	}
	return f
}

// ImportName <- ( Identifier )? ["] < [0-9a-zA-Z_/.\-]+ > ["]
func (r *reader) importName() (Import, bool) {
	save := r.pos
	var im Import
	if id, ok := r.identifier(); ok {
		im.Alias = id
	}
	if !r.lit("\"") {
		r.pos = save
		return im, false
	}
	start := r.pos
	for !r.eof() {
		c := r.peek()
		if (c >= '0' && c <= '9') || isLetter(c) || c == '_' || c == '/' || c == '.' || c == '-' {
			r.pos++
			continue
		}
		break
	}
	if r.pos == start || !r.lit("\"") {
		r.pos = save
		return im, false
	}
	im.Path = string(r.in[start : r.pos-1])
	return im, true
}

// LeftArrow <- ('<-' / '\0x2190') Spacing
func (r *reader) leftArrow() bool {
	if r.lit("<-") || r.lit("←") {
		r.spacing()
		return true
	}
	return false
}

// Definition <- Identifier LeftArrow Expression &(Identifier LeftArrow / !.)
func (r *reader) definition() (*Node, bool) {
	save := r.pos
	id, ok := r.identifier()
	if !ok || !r.leftArrow() {
		r.pos = save
		return nil, false
	}
	e := r.expression()
	// lookahead
	p := r.pos
	good := r.eof()
	if !good {
		if _, ok := r.identifier(); ok && r.leftArrow() {
			good = true
		}
	}
	r.pos = p
	if !good {
		if r.pos > r.far {
			r.far = r.pos
		}
		r.pos = save
		return nil, false
	}
	return &Node{T: "Rule", S: id, Kids: []*Node{e}}, true
}

func list(t string, a, b *Node) *Node {
	// both operands are kept flat: nesting of the same list type is not observable
	n := &Node{T: t}
	for _, x := range []*Node{a, b} {
		if x.T == t {
			n.Kids = append(n.Kids, x.Kids...)
		} else {
			n.Kids = append(n.Kids, x)
		}
	}
	return n
}

// Expression <- Sequence (Slash Sequence)* (Slash)? / <empty>
func (r *reader) expression() *Node {
	first, ok := r.sequence()
	if !ok {
		return &Node{T: "Nil"}
	}
	e := first
	for {
		p := r.pos
		if !r.slash() {
			break
		}
		s, ok := r.sequence()
		if !ok {
			r.pos = p
			break
		}
		e = list("Alternate", e, s)
	}
	if r.slash() {
		e = list("Alternate", e, &Node{T: "Nil"})
	}
	return e
}

func (r *reader) tok(s string) bool {
	if r.lit(s) {
		r.spacing()
		return true
	}
	return false
}
func (r *reader) slash() bool { return r.tok("/") }

// Sequence <- Prefix (Prefix)*
func (r *reader) sequence() (*Node, bool) {
	first, ok := r.prefix()
	if !ok {
		return nil, false
	}
	s := first
	for {
		p, ok := r.prefix()
		if !ok {
			break
		}
		s = list("Sequence", s, p)
	}
	return s, true
}

// Prefix <- And Action / Not Action / And Suffix / Not Suffix / Suffix
func (r *reader) prefix() (*Node, bool) {
	save := r.pos
	for _, op := range []struct{ s, act, fix string }{{"&", "Predicate", "PeekFor"}, {"!", "StateChange", "PeekNot"}} {
		if r.tok(op.s) {
			if a, ok := r.action(); ok {
				return &Node{T: op.act, S: a}, true
			}
			if s, ok := r.suffix(); ok {
				return &Node{T: op.fix, Kids: []*Node{s}}, true
			}
			r.pos = save
			// "And Action / Not Action / And Suffix / Not Suffix" failed; Suffix cannot start with & or !
			return nil, false
		}
	}
	return r.suffix()
}

// Suffix <- Primary (Question / Star / Plus)?
func (r *reader) suffix() (*Node, bool) {
	p, ok := r.primary()
	if !ok {
		return nil, false
	}
	switch {
	case r.tok("?"):
		return &Node{T: "Query", Kids: []*Node{p}}, true
	case r.tok("*"):
		return &Node{T: "Star", Kids: []*Node{p}}, true
	case r.tok("+"):
		return &Node{T: "Plus", Kids: []*Node{p}}, true
	}
	return p, true
}

// Primary <- Identifier !LeftArrow / Open Expression Close / Literal / Class / Dot / Action / Begin Expression End
func (r *reader) primary() (*Node, bool) {
	save := r.pos
	if id, ok := r.identifier(); ok {
		p := r.pos
		if r.leftArrow() {
			r.pos = save // this identifier starts the next definition
		} else {
			r.pos = p
			return &Node{T: "Name", S: id}, true
		}
	}
	if r.tok("(") {
		e := r.expression()
		if r.tok(")") {
			return e, true
		}
		if r.pos > r.far {
			r.far = r.pos
		}
		r.pos = save
	}
	if n, ok := r.literal(); ok {
		return n, true
	}
	if n, ok := r.class(); ok {
		return n, true
	}
	if r.tok(".") {
		return &Node{T: "Dot", S: "."}, true
	}
	if a, ok := r.action(); ok {
		return &Node{T: "Action", S: a}, true
	}
	if r.tok("<") {
		e := r.expression()
		if r.tok(">") {
			return &Node{T: "Push", Kids: []*Node{e}}, true
		}
		if r.pos > r.far {
			r.far = r.pos
		}
		r.pos = save
	}
	return nil, false
}

func char(c rune) *Node { return &Node{T: "Character", S: string(c)} }

// Escape: the documented backslash escapes. ok=false: not an escape here (caller decides what that means).
func (r *reader) escape() (rune, bool) {
	save := r.pos
	if !r.has("\\") {
		return 0, false
	}
	for _, e := range []struct {
		s string
		c rune
	}{{"\\a", '\a'}, {"\\b", '\b'}, {"\\e", 0x1B}, {"\\f", '\f'}, {"\\n", '\n'}, {"\\r", '\r'}, {"\\t", '\t'}, {"\\v", '\v'}} {
		if r.litCI(e.s) { // escape letters are written as case-insensitive literals in peg.peg
			return e.c, true
		}
	}
	for _, e := range []struct {
		s string
		c rune
	}{{"\\'", '\''}, {"\\\"", '"'}, {"\\[", '['}, {"\\]", ']'}, {"\\-", '-'}} {
		if r.lit(e.s) {
			return e.c, true
		}
	}
	// '\\' "0x" <[0-9a-fA-F]+>
	if r.lit("\\") {
		if r.litCI("0x") {
			start := r.pos
			v := int64(0)
			over := false
			for !r.eof() {
				c := r.peek()
				var d int64
				switch {
				case c >= '0' && c <= '9':
					d = int64(c - '0')
				case c >= 'a' && c <= 'f':
					d = int64(c-'a') + 10
				case c >= 'A' && c <= 'F':
					d = int64(c-'A') + 10
				default:
					d = -1
				}
				if d < 0 {
					break
				}
				v = v*16 + d
				if v > 0x7fffffff {
					over = true
					v = 0x7fffffff
				}
				r.pos++
			}
			if r.pos > start {
				_ = over
				return rune(v), true
			}
		}
		r.pos = save + 1
		// <[0-3][0-7][0-7]> / <[0-7][0-7]?>
		oct := func(c rune, hi rune) bool { return c >= '0' && c <= hi }
		if r.pos+2 < len(r.in) && oct(r.in[r.pos], '3') && oct(r.in[r.pos+1], '7') && oct(r.in[r.pos+2], '7') {
			v := (r.in[r.pos]-'0')*64 + (r.in[r.pos+1]-'0')*8 + (r.in[r.pos+2] - '0')
			r.pos += 3
			return v, true
		}
		if !r.eof() && oct(r.peek(), '7') {
			v := r.peek() - '0'
			r.pos++
			if !r.eof() && oct(r.peek(), '7') {
				v = v*8 + (r.peek() - '0')
				r.pos++
			}
			return v, true
		}
		if r.lit("\\") {
			return '\\', true
		}
	}
	r.pos = save
	return 0, false
}

// Char <- Escape / !'\\' <.>
func (r *reader) char() (rune, bool) {
	if c, ok := r.escape(); ok {
		return c, true
	}
	if r.eof() || r.has("\\") {
		return 0, false
	}
	c := r.peek()
	r.pos++
	return c, true
}

func ciChar(c rune) *Node {
	lo, up := c|0x20, c&^0x20
	return &Node{T: "Alternate", Kids: []*Node{char(lo), char(up)}}
}

// DoubleChar <- Escape / <[a-zA-Z]> (both cases) / !'\\' <.>
func (r *reader) doubleChar() (*Node, bool) {
	if c, ok := r.escape(); ok {
		return char(c), true
	}
	if r.eof() || r.has("\\") {
		return nil, false
	}
	c := r.peek()
	r.pos++
	if isLetter(c) {
		return ciChar(c), true
	}
	return char(c), true
}

// Literal <- ['] (!['] Char)* ['] Spacing / ["] (!["] DoubleChar)* ["] Spacing     (empty = the empty match)
func (r *reader) literal() (*Node, bool) {
	save := r.pos
	for _, q := range []string{"'", "\""} {
		if !r.lit(q) {
			continue
		}
		var n *Node
		for !r.has(q) {
			var k *Node
			if q == "'" {
				c, ok := r.char()
				if !ok {
					break
				}
				k = char(c)
			} else {
				d, ok := r.doubleChar()
				if !ok {
					break
				}
				k = d
			}
			if n == nil {
				n = k
			} else {
				n = list("Sequence", n, k)
			}
		}
		if !r.lit(q) {
			if r.pos > r.far {
				r.far = r.pos
			}
			r.pos = save
			return nil, false
		}
		r.spacing()
		if n == nil {
			n = &Node{T: "Nil"}
		}
		return n, true
	}
	return nil, false
}

// Class <- ( '[[' ( '^' DoubleRanges / DoubleRanges / <nothing> ) ']]' / '[' ( '^' Ranges / Ranges / <nothing> ) ']' ) Spacing
func (r *reader) class() (*Node, bool) {
	save := r.pos
	try := func(open, close string, double bool) (*Node, bool) {
		r.pos = save
		if !r.lit(open) {
			return nil, false
		}
		var body *Node
		p := r.pos
		if r.lit("^") {
			if rs, ok := r.ranges(close, double); ok {
				body = &Node{T: "Sequence", Kids: []*Node{{T: "PeekNot", Kids: []*Node{rs}}, {T: "Dot", S: "."}}}
			} else {
				r.pos = p
			}
		}
		if body == nil {
			if rs, ok := r.ranges(close, double); ok {
				body = rs
			} else {
				r.pos = p
				body = &Node{T: "PeekNot", Kids: []*Node{{T: "Nil"}}} // the empty class matches nothing
			}
		}
		if !r.lit(close) {
			if r.pos > r.far {
				r.far = r.pos
			}
			return nil, false
		}
		return body, true
	}
	n, ok := try("[[", "]]", true)
	if !ok {
		n, ok = try("[", "]", false)
	}
	if !ok {
		r.pos = save
		return nil, false
	}
	r.spacing()
	return n, true
}

// Ranges <- !']' Range (!']' Range)*   (close = "]" or "]]")
func (r *reader) ranges(close string, double bool) (*Node, bool) {
	var n *Node
	for !r.has(close) {
		k, ok := r.rng(double)
		if !ok {
			break
		}
		if n == nil {
			n = k
		} else {
			n = list("Alternate", n, k)
		}
	}
	return n, n != nil
}

// Range <- Char '-' Char / Char ; DoubleRange <- Char '-' Char (both cases) / DoubleChar
func (r *reader) rng(double bool) (*Node, bool) {
	save := r.pos
	if a, ok := r.char(); ok {
		if r.lit("-") {
			if b, ok := r.char(); ok {
				if !double {
					return &Node{T: "Range", Kids: []*Node{char(a), char(b)}}, true
				}
				// both cases of the bounds (for the ASCII letters the documentation talks about this is plain case
				// folding; other letters are folded the way Go's strings.ToLower/ToUpper fold one rune)
				lo := func(c rune) *Node { return &Node{T: "Character", S: strings.ToLower(string(c))} }
				up := func(c rune) *Node { return &Node{T: "Character", S: strings.ToUpper(string(c))} }
				return &Node{T: "Alternate", Kids: []*Node{
					{T: "Range", Kids: []*Node{lo(a), lo(b)}},
					{T: "Range", Kids: []*Node{up(a), up(b)}}}}, true
			}
		}
		r.pos = save
	}
	if double {
		return r.doubleChar()
	}
	if c, ok := r.char(); ok {
		return char(c), true
	}
	return nil, false
}

// String renders a node as an S-expression (for comparison and witnesses).
func (n *Node) String() string {
	var sb strings.Builder
	n.write(&sb)
	return sb.String()
}

func (n *Node) write(sb *strings.Builder) {
	sb.WriteString("(" + n.T)
	if n.S != "" || n.T == "Character" || n.T == "Action" || n.T == "Predicate" || n.T == "StateChange" {
		fmt.Fprintf(sb, " %q", n.S)
	}
	for _, k := range n.Kids {
		sb.WriteString(" ")
		k.write(sb)
	}
	sb.WriteString(")")
}
