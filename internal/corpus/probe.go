package corpus

// probeTmpl is written as probe.go next to every generated parser, in the SAME package, so that it can read the
// unexported state the properties talk about (token.begin/end, node.up/next, parseError.maxToken).
// It is a text/template; fields of Job drive the conditionals.
const probeTmpl = `package {{.Pkg}}

import (
	"encoding/json"
	"fmt"
	"os"
	"io"
	"reflect"
	"sync"
{{if not .NoAST}}	"bytes"
{{end}})

var _ = os.Stdout
var _ io.Writer

type Ev struct {
	K    string ` + "`json:\"k\"`" + `
	ID   int    ` + "`json:\"id\"`" + `
	Text string ` + "`json:\"t,omitempty\"`" + `
	B    int    ` + "`json:\"b\"`" + `
	E    int    ` + "`json:\"e\"`" + `
}

type Tk struct {
	R string ` + "`json:\"r\"`" + `
	B uint64 ` + "`json:\"b\"`" + `
	E uint64 ` + "`json:\"e\"`" + `
}

type Req struct {
	Seq    int
	Pkg    string
	Mode   string
	Entry  int
	In     []byte
	Hist   [][]byte
	HistEntry []int // optional: entry rule per history step (-1 = Parse() without argument)
	Memo   bool
	Size   int
	U      string
	Pretty bool
	Stdout bool
	NoExec bool
	Shared bool
	PrintRaw bool // call PrintSyntaxTree() on the process's standard output (not captured per call)
	Misuse bool
	Reinit bool
	TreeFirst bool // build and print the syntax tree BEFORE calling Execute() (default: Execute first)
}

type Res struct {
	NoPrint bool ` + "`json:\",omitempty\"`" + `
	Misuse string ` + "`json:\",omitempty\"`" + `
	Seq    int
	OK     bool
	Panic  string   ` + "`json:\",omitempty\"`" + `
	Toks   []Tk     ` + "`json:\",omitempty\"`" + `
	Max    *Tk      ` + "`json:\",omitempty\"`" + `
	Err    string   ` + "`json:\",omitempty\"`" + `
	ErrType string  ` + "`json:\",omitempty\"`" + `
	Trace  []Ev     ` + "`json:\",omitempty\"`" + `
	Events []Ev     ` + "`json:\",omitempty\"`" + `
	Shape  string   ` + "`json:\",omitempty\"`" + `
	Sprint string   ` + "`json:\",omitempty\"`" + `
	Write  string   ` + "`json:\",omitempty\"`" + `
	Stdout string   ` + "`json:\",omitempty\"`" + `
	PStdout string  ` + "`json:\",omitempty\"`" + `
	End    int
	Bad    []string ` + "`json:\",omitempty\"`" + `
	NRunes int
	Hist   []Res    ` + "`json:\",omitempty\"`" + `
	LateShape []string ` + "`json:\",omitempty\"`" + ` // history mode: the tree of every step, kept by the caller and rendered after the whole history
	LateErr []string ` + "`json:\",omitempty\"`" + ` // history mode: every returned error formatted once more after the whole history
}

func (p *{{.Type}}[U]) act(id int, text string, begin, end int) {
	p.Trace = append(p.Trace, Ev{K: "act", ID: id, Text: text, B: begin, E: end})
}
func (p *{{.Type}}[U]) actI(id int, text string) {
	p.Trace = append(p.Trace, Ev{K: "act", ID: id, Text: text})
	p.Events = append(p.Events, Ev{K: "act", ID: id, Text: text})
}
func (p *{{.Type}}[U]) actN(id int) {
	p.Trace = append(p.Trace, Ev{K: "act", ID: id})
	p.Events = append(p.Events, Ev{K: "act", ID: id})
}
func (p *{{.Type}}[U]) note(id, pos int) {
	p.Events = append(p.Events, Ev{K: "note", ID: id, B: pos})
}
func (p *{{.Type}}[U]) capd(pos int) { p.Events = append(p.Events, Ev{K: "cap", B: pos}) }
func (p *{{.Type}}[U]) setEnd(pos int) { p.End = pos }
func (p *{{.Type}}[U]) enter(rule, pos, tokenIndex int) bool {
	p.Events = append(p.Events, Ev{K: "enter", ID: rule, B: pos, E: tokenIndex})
	return true
}
func (p *{{.Type}}[U]) chk(pos, n int) bool {
	if pos < 0 || pos >= n {
		p.Bad = append(p.Bad, fmt.Sprintf("position %d outside buffer of %d", pos, n))
	}
	p.Chks++
	return true
}
func (p *{{.Type}}[U]) P(k, pos int) bool { return (pos*7+k*3)%5 != 0 }

var entryRules = []pegRule{ {{range .RuleNames}}rule{{.}}, {{end}} }


// errToken reads the furthest token out of the error value by reflection (a field "maxToken" of the error or of the
// parser it points to, with fields pegRule/begin/end): the probe must keep working when the error type is
// rearranged, as long as the information is there; nil when it cannot be found.
func errToken(err error) *Tk {
	defer func() { recover() }()
	v := reflect.Indirect(reflect.ValueOf(err))
	if v.Kind() != reflect.Struct {
		return nil
	}
	f := v.FieldByName("maxToken")
	if !f.IsValid() {
		for i := 0; i < v.NumField() && !f.IsValid(); i++ {
			if pv := v.Field(i); pv.Kind() == reflect.Pointer && !pv.IsNil() && pv.Elem().Kind() == reflect.Struct {
				f = pv.Elem().FieldByName("maxToken")
			}
		}
	}
	if !f.IsValid() || f.Kind() != reflect.Struct {
		return nil
	}
	r, b, e := f.FieldByName("pegRule"), f.FieldByName("begin"), f.FieldByName("end")
	if !r.IsValid() || !b.IsValid() || !e.IsValid() || int(r.Uint()) >= len(rul3s) {
		return nil
	}
	return &Tk{rul3s[r.Uint()], b.Uint(), e.Uint()}
}

// textIntact: the parser's rune buffer (field "buffer", read by reflection) still is []rune(text) followed by the end
// symbol. "" when it is, or when there is no such field to look at.
func textIntact(p any, text string) string {
	defer func() { recover() }()
	f := reflect.Indirect(reflect.ValueOf(p)).FieldByName("buffer")
	if !f.IsValid() || f.Kind() != reflect.Slice || f.Type().Elem().Kind() != reflect.Int32 {
		return ""
	}
	want := []rune(text)
	if f.Len() != len(want)+1 {
		return fmt.Sprintf("the parser's rune buffer has %d elements, the text has %d runes (+ end symbol)", f.Len(), len(want))
	}
	for i, c := range want {
		if rune(f.Index(i).Int()) != c {
			return fmt.Sprintf("rune %d of the parser's buffer is %U, the text has %U", i, rune(f.Index(i).Int()), c)
		}
	}
	return ""
}

func collect[U Uint](p *{{.Type}}[U], err error, req *Req, res *Res) {
	res.OK = err == nil
	res.NRunes = len([]rune(p.Buffer))
	res.End = p.End
	res.Bad = p.Bad
	res.Events = p.Events
	if err != nil {
		res.ErrType = fmt.Sprintf("%T", err)
		res.Max = errToken(err)
		res.Err = err.Error()
		// producing the message must leave the parser's own copy of the text alone (the parser may be used again
		// without Reset: another entry rule on the same text)
		if why := textIntact(p, p.Buffer); why != "" {
			res.Bad = append(res.Bad, "after Error(): "+why)
		}
		return
	}
{{if not .NoAST}}
	for _, t := range p.Tokens() {
		res.Toks = append(res.Toks, Tk{rul3s[t.pegRule], uint64(t.begin), uint64(t.end)})
	}
{{if .HasActions}}	if !req.NoExec && !req.TreeFirst {
		p.Execute()
	}
{{end}}
	res.Shape = shapeOf(p.AST())
	// (the printers convert the whole text to runes once per node; beyond tokens x runes = 1.5e9 the printed tree is not
	// asked for: a matter of speed, and the same for a fresh and a reused parser)
	if len(res.Toks)*res.NRunes <= 1500000000 {
		res.Sprint = p.SprintSyntaxTree()
		var wb bytes.Buffer
		p.WriteSyntaxTree(&wb)
		res.Write = wb.String()
	} else {
		res.NoPrint = true
	}
	if req.PrintRaw {
		p.PrintSyntaxTree()
	}
	if req.Misuse {
		// an owner that breaks ITS OWN instance: the text is replaced by a shorter one without Reset and the stale
		// tree is printed to standard output; the panic is recovered, as a server would. Whatever this does to this
		// instance, every other instance must go on as if alone.
		res.Misuse = func() (out string) {
			defer func() {
				if x := recover(); x != nil {
					out = "panicked"
				}
			}()
			p.Buffer = ""
			p.PrintSyntaxTree()
			return "printed"
		}()
	}
	if req.Stdout {
		res.Stdout = captureStdout(func() { p.PrintSyntaxTree() })
		p.Pretty = !p.Pretty
		res.PStdout = captureStdout(func() { p.PrintSyntaxTree() })
		p.Pretty = !p.Pretty
	}
{{if .HasActions}}	if !req.NoExec && req.TreeFirst {
		p.Execute() // the order of the calls must not matter
	}
{{end}}
{{end}}
	res.Trace = p.Trace
}

{{if not .NoAST}}
// shapeOf renders a tree returned by AST(): rule[begin,end](children) for every node, siblings in order.
func shapeOf[U Uint](root *node[U]) string {
	var sb bytes.Buffer
	var walk func(n *node[U])
	walk = func(n *node[U]) {
		for n != nil {
			fmt.Fprintf(&sb, "%s[%d,%d](", rul3s[n.pegRule], n.begin, n.end)
			walk(n.up)
			sb.WriteString(")")
			n = n.next
		}
	}
	walk(root)
	return sb.String()
}
{{end}}

func captureStdout(f func()) string {
	old := os.Stdout
	r, w, err := os.Pipe()
	if err != nil {
		return "PIPE-ERROR"
	}
	os.Stdout = w
	done := make(chan string)
	go func() {
		b, _ := io.ReadAll(r)
		done <- string(b)
	}()
	func() {
		defer func() { os.Stdout = old; w.Close() }()
		f()
	}()
	return <-done
}

// sharedOpts caches option values so that several instances (also on different goroutines) are initialised with the
// very same option value, as a program keeping "var parserOptions = ..." at package level would do.
var sharedOpts sync.Map

func options[U Uint](req *Req) []func(*{{.Type}}[U]) error {
	if req.Shared {
		key := fmt.Sprintf("%T/%d/%v/%v", *new(U), req.Size, req.Memo, req.Pretty)
		if v, ok := sharedOpts.Load(key); ok {
			return v.([]func(*{{.Type}}[U]) error)
		}
		r2 := *req
		r2.Shared = false
		v, _ := sharedOpts.LoadOrStore(key, options[U](&r2))
		return v.([]func(*{{.Type}}[U]) error)
	}
	var opts []func(*{{.Type}}[U]) error
{{if not .NoAST}}
	if req.Size > 0 {
		opts = append(opts, Size[U](req.Size))
	}
	if !req.Memo {
		opts = append(opts, DisableMemoize[U]())
	}
{{end}}
	if req.Pretty {
		opts = append(opts, Pretty[U](true))
	}
	return opts
}

func parse[U Uint](p *{{.Type}}[U], entry int) error {
	if entry < 0 {
		return p.Parse()
	}
	return p.Parse(int(entryRules[entry]))
}

func one[U Uint](req *Req) (res Res) {
	res.Seq = req.Seq
	defer func() {
		if r := recover(); r != nil {
			res.Panic = fmt.Sprint(r)
		}
	}()
	p := &{{.Type}}[U]{Buffer: string(req.In)}
	if err := p.Init(options[U](req)...); err != nil {
		res.Panic = "Init error: " + err.Error()
		return
	}
	err := parse(p, req.Entry)
	collect(p, err, req, &res)
	return
}

// history: one long-lived instance, Buffer assigned + Reset before every parse.
func history[U Uint](req *Req) (res Res) {
	res.Seq = req.Seq
	p := &{{.Type}}[U]{}
	if err := p.Init(options[U](req)...); err != nil {
		res.Panic = "Init error: " + err.Error()
		return
	}
	var kept []error
{{if not .NoAST}}	var trees []*node[U] // the tree of every accepted step, held by the caller while the parser goes on to other inputs
{{end}}	for k, in := range req.Hist {
		var r Res
		func() {
			defer func() {
				if x := recover(); x != nil {
					r.Panic = fmt.Sprint(x)
				}
			}()
			p.Buffer = string(in)
			p.Trace, p.Events, p.Bad, p.End = nil, nil, nil, 0
			if req.Reinit && k > 0 {
				// the other way of reusing a parser object: initialise it again
				if err := p.Init(options[U](req)...); err != nil {
					panic("Init error: " + err.Error())
				}
			} else {
				p.Reset()
			}
			entry := req.Entry
			if k < len(req.HistEntry) {
				entry = req.HistEntry[k]
			}
			err := parse(p, entry)
			if err != nil {
				kept = append(kept, err)
			}
			collect(p, err, req, &r)
{{if not .NoAST}}			if err == nil {
				trees = append(trees, p.AST())
			} else {
				trees = append(trees, nil)
			}
{{end}}		}()
		res.Hist = append(res.Hist, r)
	}
{{if not .NoAST}}	for _, t := range trees {
		func() {
			defer func() {
				if x := recover(); x != nil {
					res.LateShape = append(res.LateShape, "PANIC "+fmt.Sprint(x))
				}
			}()
			res.LateShape = append(res.LateShape, shapeOf(t))
		}()
	}
{{end}}	// errors kept by the caller and formatted later: what they say may depend on this instance's own later inputs,
	// but never on what other instances did meanwhile
	for _, e := range kept {
		func() {
			defer func() {
				if x := recover(); x != nil {
					res.LateErr = append(res.LateErr, "PANIC "+fmt.Sprint(x))
				}
			}()
			res.LateErr = append(res.LateErr, e.Error())
		}()
	}
	return
}

// pair: two instances initialised from the SAME option values; a parses req.In, then b parses req.Hist[0], and only
// then a's results are collected (tokens, tree, printed tree), then b's. Hist[0]/Hist[1] of the result = a / b.
func pair[U Uint](req *Req) (res Res) {
	res.Seq = req.Seq
	defer func() {
		if x := recover(); x != nil {
			res.Panic = fmt.Sprint(x)
		}
	}()
	opts := options[U](req)
	a := &{{.Type}}[U]{Buffer: string(req.In)}
	b := &{{.Type}}[U]{Buffer: string(req.Hist[0])}
	if err := a.Init(opts...); err != nil {
		res.Panic = "Init error: " + err.Error()
		return
	}
	if err := b.Init(opts...); err != nil {
		res.Panic = "Init error: " + err.Error()
		return
	}
	errA := parse(a, req.Entry)
	errB := parse(b, req.Entry)
	var ra, rb Res
	collect(a, errA, req, &ra)
	collect(b, errB, req, &rb)
	res.Hist = []Res{ra, rb}
	return
}

// retry: ONE instance, one Buffer, no Reset: Parse(entry) for each entry in HistEntry in turn until one succeeds
// ("try to read it as an Assignment, else as an Expression"). A failed Parse must leave the parser where it started.
func retry[U Uint](req *Req) (res Res) {
	res.Seq = req.Seq
	p := &{{.Type}}[U]{Buffer: string(req.In)}
	if err := p.Init(options[U](req)...); err != nil {
		res.Panic = "Init error: " + err.Error()
		return
	}
	for _, entry := range req.HistEntry {
		var r Res
		stop := false
		func() {
			defer func() {
				if x := recover(); x != nil {
					r.Panic = fmt.Sprint(x)
					stop = true
				}
			}()
			err := parse(p, entry)
			collect(p, err, req, &r)
			stop = err == nil
		}()
		res.Hist = append(res.Hist, r)
		if stop {
			break
		}
	}
	return
}

func dispatch[U Uint](req *Req) Res {
	if req.Mode == "history" {
		return history[U](req)
	}
	if req.Mode == "retry" {
		return retry[U](req)
	}
	if req.Mode == "pair" {
		return pair[U](req)
	}
	return one[U](req)
}

// Run is the entry the runner calls: JSON request in, JSON result out.
func Run(reqJSON []byte) []byte {
	var req Req
	var res Res
	if err := json.Unmarshal(reqJSON, &req); err != nil {
		res.Panic = "bad request: " + err.Error()
	} else {
		switch req.U {
{{if .AllU}}		case "uint8":
			res = dispatch[uint8](&req)
		case "uint16":
			res = dispatch[uint16](&req)
		case "uint64":
			res = dispatch[uint64](&req)
		case "uint":
			res = dispatch[uint](&req)
{{end}}		default:
			res = dispatch[uint32](&req)
		}
	}
	b, _ := json.Marshal(res)
	return b
}
`

// StateBlock is the text of the parser's state variables every generated grammar declares.
const StateBlock = " Trace []Ev\n Events []Ev\n Bad []string\n End int\n Chks int"

const runnerTmpl = `package main

import (
	"bufio"
	"encoding/json"
	"fmt"
	"os"
	"runtime"
	"sort"
	"sync"
	"time"
{{range .Pkgs}}	"wk/{{.}}"
{{end}})

var registry = map[string]func([]byte) []byte{
{{range .Pkgs}}	"{{.}}": {{.}}.Run,
{{end}}}

type head struct {
	Seq  int
	Pkg  string
	Mode string
	Conc []json.RawMessage // Mode=="conc": sub-requests run concurrently
	Gor  int
	Reps int
	Print bool // redirect the process's standard output to a file while the goroutines run; report its byte histogram
}

func call(pkg string, raw []byte) []byte {
	f := registry[pkg]
	if f == nil {
		return []byte(fmt.Sprintf("{\"Seq\":-1,\"Panic\":\"no such package %s\"}", pkg))
	}
	return f(raw)
}

func main() {
	in, err := os.Open(os.Args[1])
	if err != nil {
		panic(err)
	}
	out, err := os.Create(os.Args[2])
	if err != nil {
		panic(err)
	}
	prog, err := os.Create(os.Args[3])
	if err != nil {
		panic(err)
	}
	w := bufio.NewWriter(out)
	sc := bufio.NewScanner(in)
	sc.Buffer(make([]byte, 1<<20), 1<<28)
	for sc.Scan() {
		raw := append([]byte(nil), sc.Bytes()...)
		var h head
		if err := json.Unmarshal(raw, &h); err != nil {
			panic(err)
		}
		// attribute a fatal error (stack overflow, runtime throw) to the request being processed
		fmt.Fprintf(prog, "%d\n", h.Seq)
		if h.Mode == "conc" {
			w.Write(conc(&h))
		} else {
			w.Write(call(h.Pkg, raw))
		}
		w.WriteByte('\n')
		w.Flush()
	}
}

// conc runs the sub-requests from h.Gor goroutines, h.Reps times each, interleaved; returns, per sub-request,
// the distinct results observed (so that any divergence from the sequential result is visible).
// The goroutines share nothing with each other or with this monitor while they run (no mutex, no atomics: those
// would add happens-before edges and could hide a race in the code under test from the race detector); every
// goroutine records into its own slice, merged after the join. Overlap is computed afterwards from monotonic
// timestamps taken around each call.
func conc(h *head) []byte {
	type sub struct {
		Pkg string
	}
	// (a goroutine keeps every DISTINCT result of a sub-request once, with a count — not one string per call: a
	// result can be megabytes (the observer log of a parse with a few hundred thousand rule entries), and thousands
	// of calls per batch took a child past its memory cap in a thorough run)
	type rec struct {
		i          int
		start, end time.Duration
	}
	distinct := make([][]map[string]int, h.Gor)
	n := len(h.Conc)
	subs := make([]sub, n)
	for i := range subs {
		json.Unmarshal(h.Conc[i], &subs[i])
	}
	per := make([][]rec, h.Gor)
	var outFile *os.File
	oldStdout := os.Stdout
	if h.Print {
		if f, err := os.CreateTemp("", "conc-stdout-*"); err == nil {
			outFile = f
			os.Stdout = f
		}
	}
	// every goroutine walks the sub-requests with a stride that is coprime to their number, so that each repetition
	// runs every sub-request exactly once (with 28 sub-requests a stride of 7 visited four of them seven times each)
	stride := 7
	gcd := func(a, b int) int {
		for b != 0 {
			a, b = b, a%b
		}
		return a
	}
	for n > 0 && gcd(stride, n) != 1 {
		stride++
	}
	t0 := time.Now()
	var wg sync.WaitGroup
	for g := 0; g < h.Gor; g++ {
		wg.Add(1)
		go func(g int) {
			defer wg.Done()
			var mine []rec
			seen := make([]map[string]int, n)
			for rep := 0; rep < h.Reps; rep++ {
				for k := 0; k < n; k++ {
					i := (k*stride + g*3 + rep) % n
					if (g+rep+k)%5 == 0 {
						runtime.Gosched()
					}
					st := time.Since(t0)
					r := call(subs[i].Pkg, h.Conc[i])
					mine = append(mine, rec{i, st, time.Since(t0)})
					if seen[i] == nil {
						seen[i] = map[string]int{}
					}
					seen[i][string(r)]++
				}
			}
			per[g] = mine
			distinct[g] = seen
		}(g)
	}
	wg.Wait()
	var hist map[string]int
	if outFile != nil {
		os.Stdout = oldStdout
		outFile.Seek(0, 0)
		hist = map[string]int{}
		rd := bufio.NewReader(outFile)
		for {
			b, err := rd.ReadByte()
			if err != nil {
				break
			}
			hist[fmt.Sprint(b)]++
		}
		outFile.Close()
		os.Remove(outFile.Name())
	}
	results := make([]map[string]int, n)
	for i := range results {
		results[i] = map[string]int{}
	}
	type iv struct {
		s, e time.Duration
		g    int
	}
	var ivs []iv
	calls := 0
	for g, mine := range per {
		for _, r := range mine {
			ivs = append(ivs, iv{r.start, r.end, g})
			calls++
		}
		for i, m := range distinct[g] {
			for res, cnt := range m {
				results[i][res] += cnt
			}
		}
	}
	// number of calls that overlapped in time with a call of another goroutine
	sort.Slice(ivs, func(a, b int) bool { return ivs[a].s < ivs[b].s })
	overlap := 0
	for a := range ivs {
		for b := a + 1; b < len(ivs) && ivs[b].s < ivs[a].e; b++ {
			if ivs[b].g != ivs[a].g {
				overlap++
				break
			}
		}
	}
	type outT struct {
		Seq     int
		Overlap int
		Calls   int
		Results []map[string]int
		StdoutHist map[string]int
	}
	b, _ := json.Marshal(outT{Seq: h.Seq, Overlap: overlap, Calls: calls, Results: results, StdoutHist: hist})
	return b
}
`

// bareProbeTmpl: probe for grammars that are not ours (the shipped example grammars): no observer methods, no
// assumptions about the parser state; it only calls the public API and reads tokens / error token.
const bareProbeTmpl = `package {{.Pkg}}

import (
	"encoding/json"
	"fmt"
	"reflect"
)

type Tk struct {
	R string ` + "`json:\"r\"`" + `
	B uint64 ` + "`json:\"b\"`" + `
	E uint64 ` + "`json:\"e\"`" + `
}

type Req struct {
	Seq   int
	In    []byte
	Memo  bool
	Size  int
	Pretty bool
}

type Res struct {
	Seq    int
	OK     bool
	Panic  string ` + "`json:\",omitempty\"`" + `
	Toks   []Tk   ` + "`json:\",omitempty\"`" + `
	Max    *Tk    ` + "`json:\",omitempty\"`" + `
	Err    string ` + "`json:\",omitempty\"`" + `
	ErrType string ` + "`json:\",omitempty\"`" + `
	Sprint string ` + "`json:\",omitempty\"`" + `
	NoPrint bool ` + "`json:\",omitempty\"`" + `
	NRunes int
}


// errToken reads the furthest token out of the error value by reflection (a field "maxToken" of the error or of the
// parser it points to, with fields pegRule/begin/end): the probe must keep working when the error type is
// rearranged, as long as the information is there; nil when it cannot be found.
func errToken(err error) *Tk {
	defer func() { recover() }()
	v := reflect.Indirect(reflect.ValueOf(err))
	if v.Kind() != reflect.Struct {
		return nil
	}
	f := v.FieldByName("maxToken")
	if !f.IsValid() {
		for i := 0; i < v.NumField() && !f.IsValid(); i++ {
			if pv := v.Field(i); pv.Kind() == reflect.Pointer && !pv.IsNil() && pv.Elem().Kind() == reflect.Struct {
				f = pv.Elem().FieldByName("maxToken")
			}
		}
	}
	if !f.IsValid() || f.Kind() != reflect.Struct {
		return nil
	}
	r, b, e := f.FieldByName("pegRule"), f.FieldByName("begin"), f.FieldByName("end")
	if !r.IsValid() || !b.IsValid() || !e.IsValid() || int(r.Uint()) >= len(rul3s) {
		return nil
	}
	return &Tk{rul3s[r.Uint()], b.Uint(), e.Uint()}
}

func one(req *Req) (res Res) {
	res.Seq = req.Seq
	defer func() {
		if r := recover(); r != nil {
			res.Panic = fmt.Sprint(r)
		}
	}()
	p := &{{.Type}}[uint32]{Buffer: string(req.In)}
	var opts []func(*{{.Type}}[uint32]) error
	if req.Size > 0 {
		opts = append(opts, Size[uint32](req.Size))
	}
	if !req.Memo {
		opts = append(opts, DisableMemoize[uint32]())
	}
	if req.Pretty {
		opts = append(opts, Pretty[uint32](true))
	}
	if err := p.Init(opts...); err != nil {
		res.Panic = "Init error: " + err.Error()
		return
	}
	err := p.Parse()
	res.OK = err == nil
	res.NRunes = len([]rune(p.Buffer))
	if err != nil {
		res.ErrType = fmt.Sprintf("%T", err)
		res.Max = errToken(err)
		res.Err = err.Error()
		return
	}
	for _, t := range p.Tokens() {
		res.Toks = append(res.Toks, Tk{rul3s[t.pegRule], uint64(t.begin), uint64(t.end)})
	}
	// the printers convert the whole text to runes once per node: tokens x runes conversions. Beyond a budget the
	// printed tree is not asked for (a matter of speed, not of the properties); the token checks still apply
	if len(res.Toks)*res.NRunes <= printBudget {
		res.Sprint = p.SprintSyntaxTree()
	} else {
		res.NoPrint = true
	}
	return
}

const printBudget = 1500000000

func Run(reqJSON []byte) []byte {
	var req Req
	var res Res
	if err := json.Unmarshal(reqJSON, &req); err != nil {
		res.Panic = "bad request: " + err.Error()
	} else {
		res = one(&req)
	}
	b, _ := json.Marshal(res)
	return b
}
`
