// Package corpus builds "parser corpora": many generated grammars are fed to the real peg binary (built from the
// tree under test), the emitted parsers are compiled by the real Go compiler together with in-package probes,
// linked into one runner binary, and executed in child processes on request lists. See DESIGN.md section 3.2.
package corpus

import (
	"bufio"
	"bytes"
	"encoding/json"
	"fmt"
	"os"
	"os/exec"
	"path/filepath"
	"regexp"
	"sort"
	"strconv"
	"strings"
	"sync"
	"syscall"
	"text/template"
	"time"

	"verif/internal/harness"
)

// Job: one package = one grammar text + one option set.
type Job struct {
	Pkg        string // package / directory name
	Text       string // .peg text (package clause must name Pkg)
	Opts       []string
	NoAST      bool
	Type       string // parser type name
	RuleNames  []string
	HasActions bool              // the grammar has >=1 reachable action (=> Execute exists)
	AllU       bool              // instantiate the probe for uint16/uint32/uint64/uint
	NoProbe    bool              // only generate+compile (C08); no probe, not linked into the runner
	Extra      map[string]string // extra files written next to the generated parser (name -> content)
	Bare       bool              // use the bare probe (foreign grammars: no observer methods in the parser state)

	// results
	GenExit   int
	GenStderr string
	GenOut    []byte
	Compiled  bool
	CompErr   string
}

type Tk struct {
	R string `json:"r"`
	B uint64 `json:"b"`
	E uint64 `json:"e"`
}

func (t Tk) String() string { return fmt.Sprintf("%s[%d,%d]", t.R, t.B, t.E) }

type Ev struct {
	K    string `json:"k"`
	ID   int    `json:"id"`
	Text string `json:"t,omitempty"`
	B    int    `json:"b"`
	E    int    `json:"e"`
}

type Req struct {
	Seq       int
	Pkg       string
	Mode      string `json:",omitempty"`
	Entry     int
	In        []byte
	Hist      [][]byte `json:",omitempty"`
	HistEntry []int    `json:",omitempty"`
	Memo      bool
	Size      int    `json:",omitempty"`
	U         string `json:",omitempty"`
	Pretty    bool   `json:",omitempty"`
	Stdout    bool   `json:",omitempty"`
	NoExec    bool   `json:",omitempty"`
	Shared    bool   `json:",omitempty"` // initialise with option values shared by all instances of the package
	PrintRaw  bool   `json:",omitempty"`
	Reinit    bool   `json:",omitempty"` // history mode: Init(options...) again instead of Reset() between the inputs
	Misuse    bool   `json:",omitempty"` // after the parse the owner replaces Buffer by "" without Reset and prints the stale tree (recovered)
	TreeFirst bool   `json:",omitempty"`
	Print     bool   `json:",omitempty"` // conc mode: capture the process's standard output, report its byte histogram
	// conc mode
	Conc []Req `json:",omitempty"`
	Gor  int   `json:",omitempty"`
	Reps int   `json:",omitempty"`
}

type Res struct {
	NoPrint bool `json:",omitempty"` // the printed tree was not asked for (tokens x runes over the budget)
	Misuse string `json:",omitempty"`
	Seq       int
	OK        bool
	Panic     string
	Toks      []Tk
	Max       *Tk
	Err       string
	ErrType   string
	Trace     []Ev
	Events    []Ev
	Shape     string
	Sprint    string
	Write     string
	Stdout    string
	PStdout   string
	End       int
	Bad       []string
	NRunes    int
	LateErr   []string
	LateShape []string
	Hist      []Res
	// conc mode
	Overlap    int
	Calls      int
	Results    []map[string]int
	StdoutHist map[string]int
	// set by the engine
	Fatal string // the child process died while processing this request
	Lost  bool   // no result (child died earlier and this request was not re-run)
}

type Corpus struct {
	Env    *harness.Env
	Dir    string
	Peg    string
	Race   bool
	Jobs   []*Job
	byName map[string]*Job
	runner string
	nruns  int
	// stats
	GenFailed, CompFailed int
	raceMu                sync.Mutex
	RaceReports           []string // stderr of children that printed "WARNING: DATA RACE"
	Abandoned             int      // requests not run because their chunk's child had died three times
	WatchdogHits          int      // children stopped by the wall-clock watchdog or killed from outside (inconclusive, never a violation)
	PeakMB                int      // largest resident set of any runner child (MB)
}

func New(env *harness.Env, peg string, race bool, tag string) *Corpus {
	d := filepath.Join(env.Scratch, "corpus-"+tag)
	os.MkdirAll(d, 0o755)
	return &Corpus{Env: env, Dir: d, Peg: peg, Race: race, byName: map[string]*Job{}}
}

func (c *Corpus) Add(j *Job) {
	if j.Type == "" {
		j.Type = "P"
	}
	c.Jobs = append(c.Jobs, j)
	c.byName[j.Pkg] = j
}

func (c *Corpus) Job(name string) *Job { return c.byName[name] }

// Remove deletes the corpus directory (build output included).
func (c *Corpus) Remove() { os.RemoveAll(c.Dir) }

var probeT = template.Must(template.New("probe").Parse(probeTmpl))
var bareProbeT = template.Must(template.New("bareprobe").Parse(bareProbeTmpl))
var runnerT = template.Must(template.New("runner").Parse(runnerTmpl))

// Generate runs peg for every job (in parallel) and writes probes.
func (c *Corpus) Generate() {
	// the peg module itself is importable (the shipped peg.peg imports its tree package)
	os.WriteFile(filepath.Join(c.Dir, "go.mod"), []byte(fmt.Sprintf("module wk\n\ngo 1.25\n\nrequire github.com/pointlander/peg v0.0.0\n\nreplace github.com/pointlander/peg => %s\n", c.Env.Repo)), 0o644)
	var wg sync.WaitGroup
	sem := make(chan struct{}, 16)
	for _, j := range c.Jobs {
		wg.Add(1)
		sem <- struct{}{}
		go func(j *Job) {
			defer wg.Done()
			defer func() { <-sem }()
			d := filepath.Join(c.Dir, j.Pkg)
			os.MkdirAll(d, 0o755)
			os.WriteFile(filepath.Join(d, "g.peg"), []byte(j.Text), 0o644)
			args := append(append([]string{}, j.Opts...), "-output", "g.go", "g.peg")
			cmd := exec.Command(c.Peg, args...)
			cmd.Dir = d
			cmd.Env = append(os.Environ(), "GORACE=atexit_sleep_ms=0")
			var se bytes.Buffer
			cmd.Stderr = &se
			guard, err := harness.RunGuarded(cmd, 0, 0)
			if guard.MemKilled {
				se.WriteString(fmt.Sprintf("\nverif: peg exceeded the memory limit of %d MB and was killed (runaway allocation?)\n", harness.DefaultMemMB))
			}
			if guard.ExternalKill(0) {
				c.raceMu.Lock()
				c.WatchdogHits++
				c.raceMu.Unlock()
			}
			j.GenStderr = se.String()
			if err != nil {
				j.GenExit = 1
				if ee, ok := err.(*exec.ExitError); ok {
					j.GenExit = ee.ExitCode()
				}
			}
			j.GenOut, _ = os.ReadFile(filepath.Join(d, "g.go"))
			if j.GenExit != 0 || len(j.GenOut) == 0 {
				os.Remove(filepath.Join(d, "g.go"))
				return
			}
			for name, content := range j.Extra {
				os.WriteFile(filepath.Join(d, name), []byte(content), 0o644)
			}
			if !j.NoProbe {
				var pb bytes.Buffer
				tmpl := probeT
				if j.Bare {
					tmpl = bareProbeT
				}
				if err := tmpl.Execute(&pb, j); err != nil {
					panic(err)
				}
				os.WriteFile(filepath.Join(d, "probe.go"), pb.Bytes(), 0o644)
			}
		}(j)
	}
	wg.Wait()
	for _, j := range c.Jobs {
		if j.GenExit != 0 || len(j.GenOut) == 0 {
			c.GenFailed++
			os.RemoveAll(filepath.Join(c.Dir, j.Pkg))
		}
	}
}

var pkgLine = regexp.MustCompile(`^# wk/(\S+)`)

// Compile compiles every generated package; packages that do not compile are recorded (that is C08's observation)
// and left out of the runner.
func (c *Corpus) Compile() error {
	args := []string{"build"}
	if c.Race {
		args = append(args, "-race")
	}
	args = append(args, "./...")
	out, _ := c.Env.RunGo(c.Dir, args...)
	cur := ""
	bad := map[string]*strings.Builder{}
	for _, line := range strings.Split(out, "\n") {
		if m := pkgLine.FindStringSubmatch(line); m != nil {
			cur = m[1]
			if bad[cur] == nil {
				bad[cur] = &strings.Builder{}
			}
			continue
		}
		if cur != "" && line != "" {
			if bad[cur].Len() < 2000 {
				bad[cur].WriteString(line + "\n")
			}
		} else if line != "" && !strings.HasPrefix(line, "go: ") {
			// an error not attributed to a package: infrastructure problem
			if !strings.Contains(line, "wk/") {
				return fmt.Errorf("go build: %s", out[:min(len(out), 2000)])
			}
		}
	}
	for _, j := range c.Jobs {
		if j.GenExit != 0 || len(j.GenOut) == 0 {
			continue
		}
		if b, isBad := bad[j.Pkg]; isBad {
			j.CompErr = b.String()
			c.CompFailed++
			os.RemoveAll(filepath.Join(c.Dir, j.Pkg))
		} else {
			j.Compiled = true
		}
	}
	return nil
}

// Link builds the runner binary that imports every compiled, probed package.
func (c *Corpus) Link() error {
	var pkgs []string
	for _, j := range c.Jobs {
		if j.Compiled && !j.NoProbe {
			pkgs = append(pkgs, j.Pkg)
		}
	}
	sort.Strings(pkgs)
	var mb bytes.Buffer
	if err := runnerT.Execute(&mb, map[string]any{"Pkgs": pkgs}); err != nil {
		return err
	}
	os.WriteFile(filepath.Join(c.Dir, "main.go"), mb.Bytes(), 0o644)
	args := []string{"build"}
	if c.Race {
		args = append(args, "-race")
	}
	args = append(args, "-o", "runner.bin", ".")
	out, err := c.Env.RunGo(c.Dir, args...)
	if err != nil {
		return fmt.Errorf("linking runner failed: %v\n%s", err, out[:min(len(out), 3000)])
	}
	c.runner = filepath.Join(c.Dir, "runner.bin")
	return nil
}

// Build = Generate + Compile + Link.
func (c *Corpus) Build() error {
	c.Generate()
	if err := c.Compile(); err != nil {
		return err
	}
	return c.Link()
}

// RunOpts bound one child process.
type RunOpts struct {
	CPUSeconds  int // ulimit -t  (exceeding it on one request = non-termination)
	WallSeconds int // watchdog; firing = inconclusive
	Workers     int
	GoRace      string // GORACE value for race builds
	MemMB       int    // resident-memory cap per child (0 = harness.DefaultMemMB, x3 for race builds); exceeding it = runaway allocation
}

// Run executes the requests (split over Workers child processes) and returns results aligned with reqs.
// A request whose processing kills the child gets Fatal set; the child is restarted after it.
func (c *Corpus) Run(reqs []Req, o RunOpts) ([]Res, error) {
	if o.Workers <= 0 {
		o.Workers = 12
	}
	if o.CPUSeconds <= 0 {
		// per child process, i.e. for its whole share of the requests: generous and growing with the request count
		// (exceeding it on one request list is reported as non-termination, so it must be far from what correct
		// parsers need on a loaded machine)
		o.CPUSeconds = 300 + len(reqs)/50
	}
	if o.WallSeconds <= 0 {
		o.WallSeconds = 1200
	}
	for i := range reqs {
		reqs[i].Seq = i
	}
	res := make([]Res, len(reqs))
	for i := range res {
		res[i].Lost = true
	}
	// only requests for packages that made it into the runner
	var idx []int
	for i, r := range reqs {
		pk := r.Pkg
		if r.Mode == "conc" {
			ok := true
			for _, s := range r.Conc {
				if j := c.byName[s.Pkg]; j == nil || !j.Compiled {
					ok = false
				}
			}
			if ok {
				idx = append(idx, i)
			}
			continue
		}
		if j := c.byName[pk]; j != nil && j.Compiled && !j.NoProbe {
			idx = append(idx, i)
		}
	}
	chunks := make([][]int, o.Workers)
	per := (len(idx) + o.Workers - 1) / o.Workers
	for w := 0; w < o.Workers; w++ {
		lo, hi := w*per, (w+1)*per
		if lo > len(idx) {
			lo = len(idx)
		}
		if hi > len(idx) {
			hi = len(idx)
		}
		chunks[w] = idx[lo:hi]
	}
	var wg sync.WaitGroup
	errs := make([]error, o.Workers)
	for w := range chunks {
		if len(chunks[w]) == 0 {
			continue
		}
		wg.Add(1)
		go func(w int) {
			defer wg.Done()
			errs[w] = c.runChunk(reqs, res, chunks[w], o, w)
		}(w)
	}
	wg.Wait()
	for _, e := range errs {
		if e != nil {
			return res, e
		}
	}
	return res, nil
}

func (c *Corpus) runChunk(reqs []Req, res []Res, chunk []int, o RunOpts, w int) error {
	c.nruns++
	remaining := chunk
	attempt := 0
	for len(remaining) > 0 {
		attempt++
		base := filepath.Join(c.Dir, fmt.Sprintf("run-%d-%d-%d", os.Getpid(), w, attempt)) + fmt.Sprintf("-%d", len(remaining))
		reqF, outF, progF, errF := base+".req", base+".out", base+".prog", base+".err"
		f, err := os.Create(reqF)
		if err != nil {
			return err
		}
		bw := bufio.NewWriter(f)
		for _, i := range remaining {
			b, _ := json.Marshal(reqs[i])
			bw.Write(b)
			bw.WriteByte('\n')
		}
		bw.Flush()
		f.Close()
		sh := fmt.Sprintf("ulimit -t %d; exec %s %s %s %s > /dev/null 2> %s", o.CPUSeconds, c.runner, reqF, outF, progF, errF)
		cmd := exec.Command("bash", "-c", sh)
		gorace := o.GoRace
		if gorace == "" {
			gorace = "atexit_sleep_ms=0 halt_on_error=0 exitcode=0"
		}
		cmd.Env = append(os.Environ(), "GORACE="+gorace, "GOTRACEBACK=single")
		memMB := o.MemMB
		if memMB <= 0 {
			memMB = harness.DefaultMemMB
			if c.Race {
				memMB *= 3 // the race detector's shadow memory
			}
		}
		guard, runErr := harness.RunGuardedIdle(cmd, memMB, time.Duration(o.WallSeconds)*time.Second)
		c.raceMu.Lock()
		if guard.PeakMB > c.PeakMB {
			c.PeakMB = guard.PeakMB
		}
		c.raceMu.Unlock()
		// read results
		done := map[int]bool{}
		badLine := ""
		if of, err := os.Open(outF); err == nil {
			sc := bufio.NewScanner(of)
			sc.Buffer(make([]byte, 1<<20), 1<<30)
			for sc.Scan() {
				var r Res
				if err := json.Unmarshal(sc.Bytes(), &r); err != nil {
					badLine = fmt.Sprintf("%v in %.200q", err, sc.Bytes())
					continue // a torn last line
				}
				if r.Seq >= 0 && r.Seq < len(res) {
					res[r.Seq] = r
					done[r.Seq] = true
				}
			}
			of.Close()
		}
		stderrTail := ""
		if b, err := os.ReadFile(errF); err == nil {
			s := string(b)
			if len(s) > 3000 {
				s = s[:1500] + "\n...\n" + s[len(s)-1500:]
			}
			stderrTail = s
		}
		last := -1
		if b, err := os.ReadFile(progF); err == nil {
			lines := strings.Fields(string(b))
			if len(lines) > 0 {
				last, _ = strconv.Atoi(lines[len(lines)-1])
			}
		}
		for _, p := range []string{reqF, outF, progF} {
			os.Remove(p)
		}
		if runErr == nil {
			os.Remove(errF)
			// every request must have a result
			for _, i := range remaining {
				if !done[i] {
					return fmt.Errorf("runner exited 0 without a result for request %d (unreadable result line: %s)", i, badLine)
				}
			}
			if c.Race && strings.Contains(stderrTail, "WARNING: DATA RACE") {
				// keep race reports: caller inspects RaceLogs
				c.raceMu.Lock()
				c.RaceReports = append(c.RaceReports, stderrTail)
				c.raceMu.Unlock()
			}
			return nil
		}
		os.Remove(errF)
		if c.Race && strings.Contains(stderrTail, "WARNING: DATA RACE") {
			c.raceMu.Lock()
			c.RaceReports = append(c.RaceReports, stderrTail)
			c.raceMu.Unlock()
		}
		// child died: attribute to the request it was processing
		code := -1
		if ee, ok := runErr.(*exec.ExitError); ok {
			code = ee.ExitCode()
		}
		if last < 0 || done[last] {
			return fmt.Errorf("runner died (exit %d) outside any request: %s", code, stderrTail)
		}
		why := fmt.Sprintf("child process died (exit status %d) while processing this request", code)
		if guard.Signaled {
			why = fmt.Sprintf("child process died (%v) while processing this request", guard.Signal)
		}
		cpuLimit := time.Duration(o.CPUSeconds) * time.Second
		switch {
		case guard.Blocked:
			why = fmt.Sprintf("the child process was blocked: alive for %v without using %v of processor time (every goroutine waiting for something that does not come?); goroutine dump follows", harness.IdleWindow, harness.IdleCPU)
		case guard.WallKilled:
			why = "WATCHDOG: wall-clock limit hit (inconclusive)"
		case guard.MemKilled:
			why = fmt.Sprintf("memory limit of %d MB exceeded while processing this request (runaway allocation?)", memMB)
		case guard.ExternalKill(cpuLimit):
			why = "WATCHDOG: the child was killed from outside (SIGKILL not sent by this check and not explained by its CPU limit: the kernel's OOM killer under other workloads?) (inconclusive)"
		case guard.Signaled && (guard.Signal == syscall.SIGXCPU || guard.Signal == syscall.SIGKILL) || code == 152 || strings.Contains(stderrTail, "SIGXCPU"):
			why = fmt.Sprintf("CPU limit of %d s exceeded on one request list (non-termination?)", o.CPUSeconds)
		}
		if strings.HasPrefix(why, "WATCHDOG") {
			// the generous wall-clock watchdog fired: that says nothing about the property (machine overloaded?)
			c.raceMu.Lock()
			c.WatchdogHits++
			c.raceMu.Unlock()
			res[last] = Res{Seq: last, Lost: true}
		} else {
			res[last] = Res{Seq: last, Fatal: why + "\n" + stderrTail}
		}
		done[last] = true
		var rest []int
		for _, i := range remaining {
			if !done[i] {
				rest = append(rest, i)
			}
		}
		remaining = rest
		if attempt >= 3 {
			// three process deaths in one chunk are three violations already; the rest of the chunk is not run
			// (each further death would cost a full CPU limit)
			c.raceMu.Lock()
			c.Abandoned += len(remaining)
			c.raceMu.Unlock()
			return nil
		}
	}
	return nil
}
