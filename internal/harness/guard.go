package harness

import (
	"bytes"
	"os"
	"os/exec"
	"strconv"
	"strings"
	"sync/atomic"
	"syscall"
	"time"
)

// Guard is what RunGuarded observed about one child process.
type Guard struct {
	MemKilled  bool           // the child exceeded the resident-memory cap and was killed by us
	WallKilled bool           // the wall-clock watchdog fired (SIGQUIT, then SIGKILL)
	PeakMB     int            // largest resident set seen (sampled every 50 ms)
	Signaled   bool           // the child was ended by a signal
	Signal     syscall.Signal // which
	CPU        time.Duration  // user+system time of the child
}

// ExternalKill: the child was killed by SIGKILL that neither our memory cap nor our watchdog sent and that the CPU
// limit does not explain: somebody else did it (the kernel's OOM killer when other workloads exhaust the machine,
// an operator). That says nothing about the code under test.
func (g Guard) ExternalKill(cpuLimit time.Duration) bool {
	return g.Signaled && g.Signal == syscall.SIGKILL && !g.MemKilled && !g.WallKilled && (cpuLimit <= 0 || g.CPU < cpuLimit-2*time.Second)
}

// DefaultMemMB caps one child process. Generated parsers and peg itself need well under 1 GB on everything the
// checks feed them (the evidence records the peak seen); a runaway allocation (an endless loop appending tokens)
// reaches tens of GB within seconds and would otherwise make the kernel's OOM killer shoot processes at random.
const DefaultMemMB = 3072

func rssMB(pid int) int {
	b, err := os.ReadFile("/proc/" + strconv.Itoa(pid) + "/statm")
	if err != nil {
		return 0
	}
	f := strings.Fields(string(b))
	if len(f) < 2 {
		return 0
	}
	pages, _ := strconv.Atoi(f[1])
	return pages * os.Getpagesize() >> 20
}

// RunGuarded is cmd.Run() with a resident-memory cap (memMB, 0 = DefaultMemMB) and an optional wall-clock watchdog
// (wall, 0 = none). cmd must not have been started. If cmd execs (bash -c "ulimit ...; exec prog"), the pid stays
// the same, so the cap applies to prog.
func RunGuarded(cmd *exec.Cmd, memMB int, wall time.Duration) (Guard, error) {
	var g Guard
	if memMB <= 0 {
		memMB = DefaultMemMB
	}
	if err := cmd.Start(); err != nil {
		return g, err
	}
	pid := cmd.Process.Pid
	done := make(chan struct{})
	fin := make(chan struct{})
	var memKilled, wallKilled atomic.Bool
	var peak atomic.Int64
	go func() {
		defer close(fin)
		t := time.NewTicker(50 * time.Millisecond)
		defer t.Stop()
		start := time.Now()
		var quitAt time.Time
		for {
			select {
			case <-done:
				return
			case <-t.C:
				m := rssMB(pid)
				if int64(m) > peak.Load() {
					peak.Store(int64(m))
				}
				if m > memMB && !memKilled.Load() {
					memKilled.Store(true)
					cmd.Process.Signal(syscall.SIGKILL)
				}
				if wall > 0 && time.Since(start) > wall {
					if !wallKilled.Load() {
						wallKilled.Store(true)
						quitAt = time.Now()
						cmd.Process.Signal(syscall.SIGQUIT) // Go programs dump their goroutines
					} else if time.Since(quitAt) > 10*time.Second {
						cmd.Process.Signal(syscall.SIGKILL)
					}
				}
			}
		}
	}()
	err := cmd.Wait()
	close(done)
	<-fin
	g.MemKilled, g.WallKilled, g.PeakMB = memKilled.Load(), wallKilled.Load(), int(peak.Load())
	if ps := cmd.ProcessState; ps != nil {
		g.CPU = ps.UserTime() + ps.SystemTime()
		if ws, ok := ps.Sys().(syscall.WaitStatus); ok && ws.Signaled() {
			g.Signaled, g.Signal = true, ws.Signal()
		}
		if ru, ok := ps.SysUsage().(*syscall.Rusage); ok && ru != nil {
			if mb := int(ru.Maxrss >> 10); mb > g.PeakMB {
				g.PeakMB = mb
			}
		}
	}
	return g, err
}

// OutputGuarded is cmd.CombinedOutput() under RunGuarded.
func OutputGuarded(cmd *exec.Cmd, memMB int, wall time.Duration) ([]byte, Guard, error) {
	var buf bytes.Buffer
	cmd.Stdout, cmd.Stderr = &buf, &buf
	g, err := RunGuarded(cmd, memMB, wall)
	return buf.Bytes(), g, err
}
