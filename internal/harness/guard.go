package harness

import (
	"bytes"
	"os"
	"os/exec"
	"strconv"
	"strings"
	"sync/atomic"
	"syscall"
	"time"
)

// Guard is what RunGuarded observed about one child process.
type Guard struct {
	MemKilled  bool           // the child exceeded the resident-memory cap and was killed by us
	WallKilled bool           // the wall-clock watchdog fired (SIGQUIT, then SIGKILL)
	PeakMB     int            // largest resident set seen (sampled every 50 ms)
	Signaled   bool           // the child was ended by a signal
	Signal     syscall.Signal // which
	CPU        time.Duration  // user+system time of the child
	// Blocked: the child was alive for IdleWindow of wall time and consumed less than IdleCPU of processor time
	// meanwhile — it is not slow (a runnable process on a loaded machine still gets its share), it is waiting for
	// something that does not come (every goroutine parked on a lock nobody will release). Killed with SIGQUIT.
	Blocked bool
}

// IdleWindow / IdleCPU: see Guard.Blocked. Only used when RunGuardedIdle is asked to watch for it.
const (
	IdleWindow = 120 * time.Second
	IdleCPU    = time.Second
)

// cpuOf reads user+system time of a live process (all threads) from /proc/<pid>/stat.
func cpuOf(pid int) (time.Duration, bool) {
	b, err := os.ReadFile("/proc/" + strconv.Itoa(pid) + "/stat")
	if err != nil {
		return 0, false
	}
	s := string(b)
	i := strings.LastIndexByte(s, ')') // the command name may contain spaces
	if i < 0 {
		return 0, false
	}
	f := strings.Fields(s[i+1:])
	if len(f) < 13 {
		return 0, false
	}
	ut, _ := strconv.ParseInt(f[11], 10, 64)
	st, _ := strconv.ParseInt(f[12], 10, 64)
	return time.Duration(ut+st) * (time.Second / 100), true // USER_HZ is 100 on Linux
}

// ExternalKill: the child was killed by SIGKILL that neither our memory cap nor our watchdog sent and that the CPU
// limit does not explain: somebody else did it (the kernel's OOM killer when other workloads exhaust the machine,
// an operator). That says nothing about the code under test.
func (g Guard) ExternalKill(cpuLimit time.Duration) bool {
	return g.Signaled && g.Signal == syscall.SIGKILL && !g.MemKilled && !g.WallKilled && (cpuLimit <= 0 || g.CPU < cpuLimit-2*time.Second)
}

// DefaultMemMB caps one child process. Generated parsers and peg itself need well under 1 GB on everything the
// checks feed them (the evidence records the peak seen); a runaway allocation (an endless loop appending tokens)
// reaches tens of GB within seconds and would otherwise make the kernel's OOM killer shoot processes at random.
const DefaultMemMB = 3072

func rssMB(pid int) int {
	b, err := os.ReadFile("/proc/" + strconv.Itoa(pid) + "/statm")
	if err != nil {
		return 0
	}
	f := strings.Fields(string(b))
	if len(f) < 2 {
		return 0
	}
	pages, _ := strconv.Atoi(f[1])
	return pages * os.Getpagesize() >> 20
}

// RunGuarded is cmd.Run() with a resident-memory cap (memMB, 0 = DefaultMemMB) and an optional wall-clock watchdog
// (wall, 0 = none). cmd must not have been started. If cmd execs (bash -c "ulimit ...; exec prog"), the pid stays
// the same, so the cap applies to prog.
func RunGuarded(cmd *exec.Cmd, memMB int, wall time.Duration) (Guard, error) {
	return runGuarded(cmd, memMB, wall, false)
}

// RunGuardedIdle is RunGuarded that also ends a child which is blocked (Guard.Blocked).
func RunGuardedIdle(cmd *exec.Cmd, memMB int, wall time.Duration) (Guard, error) {
	return runGuarded(cmd, memMB, wall, true)
}

func runGuarded(cmd *exec.Cmd, memMB int, wall time.Duration, watchIdle bool) (Guard, error) {
	var g Guard
	if memMB <= 0 {
		memMB = DefaultMemMB
	}
	if err := cmd.Start(); err != nil {
		return g, err
	}
	pid := cmd.Process.Pid
	done := make(chan struct{})
	fin := make(chan struct{})
	var memKilled, wallKilled, blocked atomic.Bool
	var peak atomic.Int64
	go func() {
		defer close(fin)
		t := time.NewTicker(50 * time.Millisecond)
		defer t.Stop()
		start := time.Now()
		var quitAt time.Time
		winStart, winCPU := start, time.Duration(0)
		for {
			select {
			case <-done:
				return
			case <-t.C:
				m := rssMB(pid)
				if int64(m) > peak.Load() {
					peak.Store(int64(m))
				}
				if m > memMB && !memKilled.Load() {
					memKilled.Store(true)
					cmd.Process.Signal(syscall.SIGKILL)
				}
				if watchIdle && !blocked.Load() && !wallKilled.Load() && time.Since(winStart) >= IdleWindow {
					if cpu, ok := cpuOf(pid); ok {
						if cpu-winCPU < IdleCPU {
							blocked.Store(true)
							quitAt = time.Now()
							cmd.Process.Signal(syscall.SIGQUIT)
						}
						winStart, winCPU = time.Now(), cpu
					}
				}
				if blocked.Load() && time.Since(quitAt) > 10*time.Second {
					cmd.Process.Signal(syscall.SIGKILL)
				}
				if wall > 0 && time.Since(start) > wall && !blocked.Load() {
					if !wallKilled.Load() {
						wallKilled.Store(true)
						quitAt = time.Now()
						cmd.Process.Signal(syscall.SIGQUIT) // Go programs dump their goroutines
					} else if time.Since(quitAt) > 10*time.Second {
						cmd.Process.Signal(syscall.SIGKILL)
					}
				}
			}
		}
	}()
	err := cmd.Wait()
	close(done)
	<-fin
	g.MemKilled, g.WallKilled, g.PeakMB, g.Blocked = memKilled.Load(), wallKilled.Load(), int(peak.Load()), blocked.Load()
	if ps := cmd.ProcessState; ps != nil {
		g.CPU = ps.UserTime() + ps.SystemTime()
		if ws, ok := ps.Sys().(syscall.WaitStatus); ok && ws.Signaled() {
			g.Signaled, g.Signal = true, ws.Signal()
		}
		if ru, ok := ps.SysUsage().(*syscall.Rusage); ok && ru != nil {
			if mb := int(ru.Maxrss >> 10); mb > g.PeakMB {
				g.PeakMB = mb
			}
		}
	}
	return g, err
}

// OutputGuarded is cmd.CombinedOutput() under RunGuarded.
func OutputGuarded(cmd *exec.Cmd, memMB int, wall time.Duration) ([]byte, Guard, error) {
	var buf bytes.Buffer
	cmd.Stdout, cmd.Stderr = &buf, &buf
	g, err := RunGuarded(cmd, memMB, wall)
	return buf.Bytes(), g, err
}
