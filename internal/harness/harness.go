// Package harness: scratch directories, toolchain invocation, building peg / drivers from the tree under test.
package harness

import (
	"bytes"
	"fmt"
	"os"
	"os/exec"
	"path/filepath"
	"strconv"
	"strings"
)

type Env struct {
	Root    string // /verif
	Repo    string // tree under test
	Go      string
	Scratch string
	Seed    int64
	Tier    string
}

func FromEnv(prop, tier string) *Env {
	e := &Env{Root: os.Getenv("VERIF_ROOT"), Repo: os.Getenv("VERIF_REPO"), Go: os.Getenv("GO"), Tier: tier}
	if e.Root == "" {
		e.Root = "/verif"
	}
	if e.Repo == "" {
		e.Repo = "/repo"
	}
	if e.Go == "" {
		e.Go = "go"
	}
	e.Seed = 1
	if s := os.Getenv("VERIF_SEED"); s != "" {
		if v, err := strconv.ParseInt(s, 10, 64); err == nil {
			e.Seed = v
		}
	}
	base := os.Getenv("VERIF_SCRATCH_BASE")
	if base == "" {
		base = os.TempDir()
	}
	d, err := os.MkdirTemp(base, "verif-"+prop+"-")
	if err != nil {
		fmt.Fprintln(os.Stderr, "cannot create scratch:", err)
		os.Exit(2)
	}
	e.Scratch = d
	os.MkdirAll(filepath.Join(d, "gocache"), 0o755)
	return e
}

func (e *Env) Cleanup() {
	if os.Getenv("VERIF_KEEP") != "" {
		fmt.Fprintln(os.Stderr, "keeping scratch", e.Scratch)
		return
	}
	// module cache style read-only dirs do not occur here; plain removal suffices
	os.RemoveAll(e.Scratch)
}

// GoEnv is the environment for every go invocation of this run (private build cache in the scratch dir).
func (e *Env) GoEnv(extra ...string) []string {
	env := []string{}
	for _, kv := range os.Environ() {
		if strings.HasPrefix(kv, "GOCACHE=") || strings.HasPrefix(kv, "GOFLAGS=") || strings.HasPrefix(kv, "GOTOOLCHAIN=") ||
			strings.HasPrefix(kv, "GOPROXY=") || strings.HasPrefix(kv, "GOSUMDB=") || strings.HasPrefix(kv, "GORACE=") {
			continue
		}
		env = append(env, kv)
	}
	env = append(env, "GOCACHE="+filepath.Join(e.Scratch, "gocache"), "GOFLAGS=-mod=mod", "GOTOOLCHAIN=local", "GOPROXY=off")
	return append(env, extra...)
}

// coverArgs: with VERIF_COVERDIR set (tools/cover.sh) the code under test is built with statement-coverage
// instrumentation and every process started by the check writes its counters to that directory (GOCOVERDIR is
// inherited). Used to see which parts of pointlander/peg the workloads reach; never part of a verdict.
func coverArgs() []string {
	d := os.Getenv("VERIF_COVERDIR")
	if d == "" {
		return nil
	}
	os.MkdirAll(d, 0o755)
	os.Setenv("GOCOVERDIR", d)
	return []string{"-cover", "-covermode=atomic", "-coverpkg=github.com/pointlander/peg/..."}
}

// RunGo runs the go tool in dir; returns combined output.
func (e *Env) RunGo(dir string, args ...string) (string, error) {
	cmd := exec.Command(e.Go, args...)
	cmd.Dir = dir
	cmd.Env = e.GoEnv()
	var buf bytes.Buffer
	cmd.Stdout, cmd.Stderr = &buf, &buf
	err := cmd.Run()
	return buf.String(), err
}

// BuildPeg builds the peg command from the tree under test (hooks on: -tags verif).
func (e *Env) BuildPeg(race bool) (string, error) {
	name := "peg"
	args := []string{"build", "-tags", "verif"}
	args = append(args, coverArgs()...)
	if race {
		args = append(args, "-race")
		name = "peg-race"
	}
	bin := filepath.Join(e.Scratch, name)
	args = append(args, "-o", bin, ".")
	out, err := e.RunGo(e.Repo, args...)
	if err != nil {
		return "", fmt.Errorf("building peg from %s failed: %v\n%s", e.Repo, err, out)
	}
	return bin, nil
}

// BuildDriver copies drivers/<name> into the scratch dir with a go.mod that points at the tree under test and builds it.
// extra files (absolute paths) are copied next to it (e.g. a copy of peg.peg.go).
func (e *Env) BuildDriver(name string, race bool, extra map[string]string, tags string) (string, error) {
	src := filepath.Join(e.Root, "drivers", name)
	dst := filepath.Join(e.Scratch, "drv-"+name)
	if race {
		dst += "-race"
	}
	os.MkdirAll(dst, 0o755)
	ents, err := os.ReadDir(src)
	if err != nil {
		return "", err
	}
	for _, en := range ents {
		if en.IsDir() {
			continue
		}
		b, err := os.ReadFile(filepath.Join(src, en.Name()))
		if err != nil {
			return "", err
		}
		os.WriteFile(filepath.Join(dst, en.Name()), b, 0o644)
	}
	for name, from := range extra {
		b, err := os.ReadFile(from)
		if err != nil {
			return "", err
		}
		os.WriteFile(filepath.Join(dst, name), b, 0o644)
	}
	gomod := fmt.Sprintf("module drv\n\ngo 1.25\n\nrequire github.com/pointlander/peg v0.0.0\n\nreplace github.com/pointlander/peg => %s\n", e.Repo)
	os.WriteFile(filepath.Join(dst, "go.mod"), []byte(gomod), 0o644)
	bin := filepath.Join(dst, name+".bin")
	args := []string{"build"}
	args = append(args, coverArgs()...)
	if tags != "" {
		args = append(args, "-tags", tags)
	}
	if race {
		args = append(args, "-race")
	}
	args = append(args, "-o", bin, ".")
	out, err := e.RunGo(dst, args...)
	if err != nil {
		return "", fmt.Errorf("building driver %s failed: %v\n%s", name, err, out)
	}
	return bin, nil
}
