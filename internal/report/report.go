// Package report: evidence files, violation/replay files, known-findings matching, coverage counters.
package report

import (
	"crypto/sha256"
	"encoding/hex"
	"encoding/json"
	"fmt"
	"os"
	"path/filepath"
	"sort"
	"strings"
	"sync"
	"time"
)

// Run collects what one check run observed.
type Run struct {
	Prop         string
	Tier         string
	Seed         int64
	Level        string
	Root         string // /verif
	start        time.Time
	mu           sync.Mutex
	Evals        int
	nontr        map[string]bool
	nontrExtra   int
	Rule         string
	Samples      []any
	Counters     map[string]int
	Extra        map[string]any
	Assumptions  []string
	Violations   []Violation
	KnownPrinted []string
	Inconclusive []string
	NoEvidence   bool // replay runs do not rewrite the evidence file
	known        *KnownFile
}

type Violation struct {
	Key     string // short classification, used for known-finding matching and dedupe
	Summary string
	Witness any
	Path    string
}

type KnownFile struct {
	Findings []Known `json:"findings"`
	Fixed    []Fixed `json:"fixed"`
}

// Known is an open finding: a genuine defect of pointlander/peg that is recorded, not repaired.
type Known struct {
	Property string `json:"property"`
	ID       string `json:"id"`
	Summary  string `json:"summary"`
	// Match: a violation is this finding iff its Key equals one of Keys (exact witness identity).
	Keys    []string `json:"keys"`
	Symptom string   `json:"symptom"`
}

type Fixed struct {
	Line     string `json:"line"` // "fixed: property=<id> <commit> <what failed>"
	Property string `json:"property"`
	Commit   string `json:"commit"`
	What     string `json:"what"`
}

func New(prop, tier string, seed int64, level string) *Run {
	root := os.Getenv("VERIF_ROOT")
	if root == "" {
		root = "/verif"
	}
	known := root
	if o := os.Getenv("VERIF_OUT"); o != "" {
		// self-test runs against a changed tree write their evidence and witnesses elsewhere
		root = o
	}
	r := &Run{Prop: prop, Tier: tier, Seed: seed, Level: level, Root: root, start: time.Now(),
		nontr: map[string]bool{}, Counters: map[string]int{}, Extra: map[string]any{}}
	r.known = &KnownFile{}
	if b, err := os.ReadFile(filepath.Join(known, "known_findings.json")); err == nil {
		if err := json.Unmarshal(b, r.known); err != nil {
			fmt.Fprintf(os.Stderr, "known_findings.json unreadable: %v\n", err)
			os.Exit(2)
		}
	}
	return r
}

func Hash(parts ...string) string {
	h := sha256.New()
	for _, p := range parts {
		fmt.Fprintf(h, "%d:%s|", len(p), p)
	}
	return hex.EncodeToString(h.Sum(nil))[:16]
}

func (r *Run) Eval(n int) { r.mu.Lock(); r.Evals += n; r.mu.Unlock() }

// Nontrivial records one distinct non-trivial case (by identity hash).
func (r *Run) Nontrivial(id string) { r.mu.Lock(); r.nontr[id] = true; r.mu.Unlock() }

// NontrivialN adds n distinct non-trivial cases counted by a driver process.
func (r *Run) NontrivialN(n int) { r.mu.Lock(); r.nontrExtra += n; r.mu.Unlock() }

func (r *Run) Count(k string, n int) { r.mu.Lock(); r.Counters[k] += n; r.mu.Unlock() }

// Max keeps the largest value seen under k.
func (r *Run) Max(k string, n int) {
	r.mu.Lock()
	if n > r.Counters[k] {
		r.Counters[k] = n
	}
	r.mu.Unlock()
}

func (r *Run) Sample(s any, max int) {
	r.mu.Lock()
	if len(r.Samples) < max {
		r.Samples = append(r.Samples, s)
	}
	r.mu.Unlock()
}

func (r *Run) Assume(s string) { r.Assumptions = append(r.Assumptions, s) }

func (r *Run) Incon(s string) { r.mu.Lock(); r.Inconclusive = append(r.Inconclusive, s); r.mu.Unlock() }

// Violate records a violation unless the same key was already recorded or it is a listed known finding.
func (r *Run) Violate(key, summary string, witness any) {
	r.mu.Lock()
	defer r.mu.Unlock()
	for _, k := range r.known.Findings {
		if k.Property != r.Prop {
			continue
		}
		for _, kk := range k.Keys {
			if kk == key {
				line := fmt.Sprintf("KNOWN-FINDING: property=%s %s (%s)", r.Prop, k.Summary, k.ID)
				for _, p := range r.KnownPrinted {
					if p == line {
						return
					}
				}
				r.KnownPrinted = append(r.KnownPrinted, line)
				return
			}
		}
	}
	for _, v := range r.Violations {
		if v.Key == key {
			return
		}
	}
	r.Violations = append(r.Violations, Violation{Key: key, Summary: summary, Witness: witness})
}

func (r *Run) NViol() int { r.mu.Lock(); defer r.mu.Unlock(); return len(r.Violations) }

// Finish writes evidence, replay files and prints the verdict lines; returns the exit code.
func (r *Run) Finish() int {
	wall := time.Since(r.start).Seconds()
	// replay files
	maxReplays := 40
	if !r.NoEvidence {
		os.RemoveAll(filepath.Join(r.Root, "replays", r.Prop)) // witnesses of earlier runs are stale
	}
	for i := range r.Violations {
		v := &r.Violations[i]
		if i >= maxReplays {
			v.Path = r.Violations[0].Path
			continue
		}
		dir := filepath.Join(r.Root, "replays", r.Prop)
		os.MkdirAll(dir, 0o755)
		p := filepath.Join(dir, fmt.Sprintf("%s-%s.json", r.Tier, Hash(v.Key)))
		b, _ := json.MarshalIndent(map[string]any{"property": r.Prop, "key": v.Key, "summary": v.Summary, "seed": r.Seed, "tier": r.Tier, "witness": v.Witness}, "", " ")
		os.WriteFile(p, b, 0o644)
		v.Path = p
	}
	cov := map[string]any{
		"evaluations":         r.Evals,
		"distinct_nontrivial": len(r.nontr) + r.nontrExtra,
		"rule":                r.Rule,
		"samples":             r.Samples,
		"counters":            sortedCounters(r.Counters),
	}
	for k, v := range r.Extra {
		cov[k] = v
	}
	if len(r.KnownPrinted) > 0 {
		cov["known_findings_printed"] = r.KnownPrinted
	}
	if len(r.Inconclusive) > 0 {
		cov["inconclusive"] = r.Inconclusive
	}
	if r.Samples == nil {
		cov["samples"] = []any{}
	}
	ev := map[string]any{
		"property_id": r.Prop, "tier": r.Tier, "seed": r.Seed, "level": r.Level,
		"coverage": cov, "assumptions": r.Assumptions, "wall_s": wall, "violations": len(r.Violations),
	}
	if r.Assumptions == nil {
		ev["assumptions"] = []string{}
	}
	b, _ := json.MarshalIndent(ev, "", " ")
	if !r.NoEvidence {
		os.MkdirAll(filepath.Join(r.Root, "evidence"), 0o755)
		os.WriteFile(filepath.Join(r.Root, "evidence", r.Prop+".json"), append(b, '\n'), 0o644)
	}

	for _, l := range r.KnownPrinted {
		fmt.Println(l)
	}
	keys := []string{}
	for k := range r.Counters {
		keys = append(keys, k)
	}
	sort.Strings(keys)
	var sb strings.Builder
	for _, k := range keys {
		fmt.Fprintf(&sb, " %s=%d", k, r.Counters[k])
	}
	fmt.Printf("%s %s seed=%d: evaluations=%d distinct_nontrivial=%d wall=%.1fs%s\n", r.Prop, r.Tier, r.Seed, r.Evals, len(r.nontr)+r.nontrExtra, wall, sb.String())
	if len(r.Violations) > 0 {
		for _, v := range r.Violations {
			fmt.Printf("VIOLATION property=%s replay=%s\n", r.Prop, v.Path)
			fmt.Printf("  %s\n", v.Summary)
		}
		return 1
	}
	if len(r.Inconclusive) > 0 {
		for _, s := range r.Inconclusive {
			fmt.Printf("INCONCLUSIVE %s: %s\n", r.Prop, s)
		}
		return 2
	}
	fmt.Printf("HELD %s on everything explored\n", r.Prop)
	return 0
}

func sortedCounters(m map[string]int) map[string]int { return m }
