module verif

go 1.25
