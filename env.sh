# sourced by ./check and setup: resolves the Go toolchain that can build /repo (go 1.25+) offline.
# NB: GOSUMDB=off / GOTOOLCHAIN=local with the default go (1.23) cannot read /repo/go.mod; we therefore
# call a 1.25+/1.26 toolchain binary directly and pin GOTOOLCHAIN=local for it.
VERIF_ROOT="$(cd "$(dirname "${BASH_SOURCE[0]}")" && pwd)"
GO=""
for cand in /root/go/pkg/mod/golang.org/toolchain@v0.0.1-go1.25.0.linux-amd64/bin/go \
            /root/go/pkg/mod/golang.org/toolchain@v0.0.1-go1.26.0.linux-amd64/bin/go \
            /opt/veriftools/go1.26.8/bin/go "$(command -v go1.26 2>/dev/null)" "$(command -v go1.26.8 2>/dev/null)"; do
  if [ -n "$cand" ] && [ -x "$cand" ]; then GO="$cand"; break; fi
done
if [ -z "$GO" ]; then echo "no usable go toolchain found" >&2; exit 2; fi
export GO
export GOTOOLCHAIN=local GOFLAGS=-mod=mod GOPROXY=off GONOSUMCHECK=1 GONOSUMDB='*' GOFLAGS
unset GOSUMDB
export VERIF_ROOT
export VERIF_REPO="${VERIF_REPO:-/repo}"
export VERIF_SEED="${VERIF_SEED:-1}"
